// Command harness drives the real paulmach/osm code for the /verif checks.
//
//	harness run  Cxx -tier quick|thorough -seed N -out DIR   generate cases, run them, write ops.txt impl.txt result.json
//	harness exec Cxx < ops                                    run op lines on the implementation, print outputs
//	harness child Cxx <op...>                                 isolated single-op execution (used for crash-prone ops)
//
// Every property registers a generator (op lines from one PRNG), an executor
// (op line -> canonical output line of the real code + direct-oracle verdict)
// and a classifier for the evidence histogram.
package main

import (
	"bufio"
	"encoding/json"
	"flag"
	"fmt"
	"os"
	"path/filepath"
	"runtime/debug"
	"sort"
	"strconv"
	"strings"
	"time"
)

// Violation is a direct-oracle finding on the implementation.
type Violation struct {
	Signature string `json:"signature"` // classifier output: names the call site / branch at fault
	Text      string `json:"text"`
	Op        string `json:"op"`
	Impl      string `json:"impl"`
}

// Prop is what each property file provides.
type Prop struct {
	ID   string
	Rule string // how cases are generated and what makes one non-trivial
	Gen  func(r *Rng, tier string, emit func(op string))
	// Exec runs one op on the real code. out is the canonical output line.
	Exec func(op string) (out string, v *Violation)
	// Class labels an op for the histogram; "" or prefix "trivial" = trivial.
	Class func(op string, out string) string
	// ModelSkip: ops whose output is not compared with the model (impl-only direct oracle ops)
	ModelSkip func(op string) bool
	// Extra evidence fields computed after the run
	Extra func() map[string]interface{}
}

var props = map[string]*Prop{}

func register(p *Prop) { props[p.ID] = p }

type result struct {
	Property       string                 `json:"property"`
	Tier           string                 `json:"tier"`
	Seed           int64                  `json:"seed"`
	Evaluations    int                    `json:"evaluations"`
	Distinct       int                    `json:"distinct_nontrivial"`
	Rule           string                 `json:"rule"`
	Histogram      map[string]int         `json:"histogram"`
	Samples        []map[string]string    `json:"samples"`
	Violations     []Violation            `json:"violations"`
	ViolationCount int                    `json:"violation_count"`
	StoppedEarly   string                 `json:"stopped_early,omitempty"`
	Extra          map[string]interface{} `json:"extra,omitempty"`
	WallS          float64                `json:"wall_s"`
}

func safeExec(p *Prop, op string) (out string, v *Violation) {
	defer func() {
		if r := recover(); r != nil {
			out = "PANIC"
			v = &Violation{Signature: "harness-panic", Text: fmt.Sprintf("panic escaped executor: %v\n%s", r, debug.Stack()), Op: op}
		}
	}()
	return p.Exec(op)
}

func main() {
	if len(os.Args) < 3 {
		fmt.Fprintln(os.Stderr, "usage: harness run|exec|child Cxx ...")
		os.Exit(2)
	}
	debug.SetMaxStack(96 << 20) // runaway recursion in the code under test should fail fast
	mode, id := os.Args[1], os.Args[2]
	p := props[id]
	if p == nil {
		fmt.Fprintf(os.Stderr, "unknown property %s\n", id)
		os.Exit(2)
	}
	switch mode {
	case "run":
		fs := flag.NewFlagSet("run", flag.ExitOnError)
		tier := fs.String("tier", "quick", "")
		seed := fs.Int64("seed", 1, "")
		out := fs.String("out", ".", "")
		corpus := fs.String("corpus", "", "directory of corpus op files (*.ops) run first")
		_ = fs.Parse(os.Args[3:])
		run(p, *tier, *seed, *out, *corpus)
	case "exec":
		sc := bufio.NewScanner(os.Stdin)
		sc.Buffer(make([]byte, 1<<20), 1<<28)
		w := bufio.NewWriter(os.Stdout)
		defer w.Flush()
		for sc.Scan() {
			op := sc.Text()
			if strings.TrimSpace(op) == "" {
				continue
			}
			o, v := safeExec(p, op)
			fmt.Fprintln(w, o)
			if v != nil {
				fmt.Fprintf(w, "#VIOLATION %s: %s\n", v.Signature, v.Text)
			}
			w.Flush()
		}
	case "child":
		op := strings.Join(os.Args[3:], " ")
		o, v := p.Exec(op)
		fmt.Println(o)
		if v != nil {
			fmt.Printf("#VIOLATION %s: %s\n", v.Signature, v.Text)
		}
	default:
		fmt.Fprintln(os.Stderr, "unknown mode")
		os.Exit(2)
	}
}

func run(p *Prop, tier string, seed int64, outDir, corpusDir string) {
	start := time.Now()
	_ = os.MkdirAll(outDir, 0o755)
	opsF, _ := os.Create(filepath.Join(outDir, "ops.txt"))
	implF, _ := os.Create(filepath.Join(outDir, "impl.txt"))
	opsW := bufio.NewWriterSize(opsF, 1<<20)
	implW := bufio.NewWriterSize(implF, 1<<20)
	res := &result{Property: p.ID, Tier: tier, Seed: seed, Rule: p.Rule, Histogram: map[string]int{}}
	var perSig map[string]int
	seen := map[string]struct{}{}
	sampleEvery := 1
	lastOp, _ := os.Create(filepath.Join(outDir, "last-op.txt"))
	slow := 0
	// a search started by the quick tier after an obligation broke is time-boxed: it stops generating once a
	// failing input is in hand and the box is used up, and in any case at twice the box
	searchBox := time.Duration(0)
	if s, err := strconv.Atoi(os.Getenv("VERIF_SEARCH_DEADLINE_S")); err == nil && s > 0 {
		searchBox = time.Duration(s) * time.Second
	}
	handle := func(op string) {
		if res.ViolationCount >= 25 && slow >= 25 {
			return // enough failing inputs found, and they are slow (deadline based): stop early
		}
		if searchBox > 0 {
			if el := time.Since(start); (el > searchBox && res.ViolationCount > 0) || el > 2*searchBox {
				res.StoppedEarly = fmt.Sprintf("search time box of %s used up after %d cases", searchBox, res.Evaluations)
				return
			}
		}
		res.Evaluations++
		opStart := time.Now()
		defer func() {
			if time.Since(opStart) > time.Second {
				slow++
			}
		}()
		// remember the op being executed so that a crash of this process can be attributed to it
		if lastOp != nil {
			_, _ = lastOp.Seek(0, 0)
			_ = lastOp.Truncate(0)
			_, _ = lastOp.WriteString(op)
		}
		o, v := safeExec(p, op)
		if strings.ContainsAny(o, "\n\r") {
			o = strings.ReplaceAll(strings.ReplaceAll(o, "\n", "\\n"), "\r", "\\r")
		}
		cls := "case"
		if p.Class != nil {
			cls = p.Class(op, o)
		}
		res.Histogram[cls]++
		if cls != "" && !strings.HasPrefix(cls, "trivial") {
			h := hashStr(op)
			if _, ok := seen[h]; !ok {
				seen[h] = struct{}{}
				res.Distinct++
			}
		}
		if p.ModelSkip == nil || !p.ModelSkip(op) {
			fmt.Fprintf(opsW, "%s %s\n", p.ID, op)
			fmt.Fprintln(implW, o)
		}
		if v != nil {
			v.Op = op
			v.Impl = o
			// keep at most 200, and at most 12 per signature so that distinct failures all show up
			if perSig == nil {
				perSig = map[string]int{}
			}
			if len(res.Violations) < 200 && perSig[v.Signature] < 12 {
				perSig[v.Signature]++
				res.Violations = append(res.Violations, *v)
			}
			res.ViolationCount++
		}
		if res.Evaluations%sampleEvery == 0 && len(res.Samples) < 12 {
			so, si := op, o
			if len(so) > 600 {
				so = so[:600] + "…"
			}
			if len(si) > 600 {
				si = si[:600] + "…"
			}
			res.Samples = append(res.Samples, map[string]string{"op": so, "impl": si, "class": cls})
			sampleEvery *= 4
		}
	}
	// corpus first
	if corpusDir != "" {
		files, _ := filepath.Glob(filepath.Join(corpusDir, "*.ops"))
		sort.Strings(files)
		for _, f := range files {
			fh, err := os.Open(f)
			if err != nil {
				continue
			}
			sc := bufio.NewScanner(fh)
			sc.Buffer(make([]byte, 1<<20), 1<<28)
			for sc.Scan() {
				l := strings.TrimSpace(sc.Text())
				if l == "" || strings.HasPrefix(l, "#") {
					continue
				}
				l = strings.TrimPrefix(l, p.ID+" ")
				handle(l)
				res.Histogram["(corpus)"]++
			}
			fh.Close()
		}
	}
	p.Gen(NewRng(uint64(seed)), tier, handle)
	opsW.Flush()
	implW.Flush()
	opsF.Close()
	implF.Close()
	if p.Extra != nil {
		res.Extra = p.Extra()
	}
	res.WallS = time.Since(start).Seconds()
	b, _ := json.MarshalIndent(res, "", " ")
	_ = os.WriteFile(filepath.Join(outDir, "result.json"), b, 0o644)
}
