package main

import (
	"context"
	"errors"
	"fmt"
	"strconv"
	"strings"

	"github.com/paulmach/osm"
	"github.com/paulmach/osm/annotate"
)

// C13 — annotate.Change. Op:
//
//	chg <ignore 0|1> C <k:id:ver>... M ... D ... H <k:id=v,v,..|k:id=!|k:id=>...
//
// marks (ChangesetID) identify which history entry / change element ended up where.
func init() {
	register(&Prop{
		ID: "C13",
		Rule: "random osmChange documents (0..5 elements per create/modify/delete block, mixed kinds, few distinct ids so histories are shared) x histories (shuffled, gapped, duplicate versions, later versions, version 0, empty, absent, datasource error) x ignore-missing flag; " +
			"the datasource hands out the history slice it holds (the same one for every lookup of an element); " +
			"non-trivial = at least one modify/delete element; distinct = distinct op line",
		Gen:   c13Gen,
		Exec:  c13Exec,
		Class: c13Class,
	})
}

var errC13Other = errors.New("datasource: some other failure")

// c13DS hands out the history it holds, the same slice every time, like osm.HistoryDatasource does: a lookup that
// rearranges the slice it was given changes what the next lookup of that element sees.
type c13DS struct {
	hist map[string][]int // versions
	bad  map[string]bool
	ns   map[string]osm.Nodes
	ws   map[string]osm.Ways
	rs   map[string]osm.Relations
}

func (d *c13DS) key(k string, id int64) string { return k + ":" + strconv.FormatInt(id, 10) }
func (d *c13DS) NodeHistory(ctx context.Context, id osm.NodeID) (osm.Nodes, error) {
	k := d.key("n", int64(id))
	if d.bad[k] {
		return nil, errC13Other
	}
	vs, ok := d.hist[k]
	if !ok {
		return nil, errC13NotFound
	}
	if out, ok := d.ns[k]; ok {
		return out, nil
	}
	out := osm.Nodes{}
	for i, v := range vs {
		out = append(out, &osm.Node{ID: id, Version: v, ChangesetID: osm.ChangesetID(i), Visible: true})
	}
	if d.ns == nil {
		d.ns = map[string]osm.Nodes{}
	}
	d.ns[k] = out
	return out, nil
}
func (d *c13DS) WayHistory(ctx context.Context, id osm.WayID) (osm.Ways, error) {
	k := d.key("w", int64(id))
	if d.bad[k] {
		return nil, errC13Other
	}
	vs, ok := d.hist[k]
	if !ok {
		return nil, errC13NotFound
	}
	if out, ok := d.ws[k]; ok {
		return out, nil
	}
	out := osm.Ways{}
	for i, v := range vs {
		out = append(out, &osm.Way{ID: id, Version: v, ChangesetID: osm.ChangesetID(i), Visible: true})
	}
	if d.ws == nil {
		d.ws = map[string]osm.Ways{}
	}
	d.ws[k] = out
	return out, nil
}
func (d *c13DS) RelationHistory(ctx context.Context, id osm.RelationID) (osm.Relations, error) {
	k := d.key("r", int64(id))
	if d.bad[k] {
		return nil, errC13Other
	}
	vs, ok := d.hist[k]
	if !ok {
		return nil, errC13NotFound
	}
	if out, ok := d.rs[k]; ok {
		return out, nil
	}
	out := osm.Relations{}
	for i, v := range vs {
		out = append(out, &osm.Relation{ID: id, Version: v, ChangesetID: osm.ChangesetID(i), Visible: true})
	}
	if d.rs == nil {
		d.rs = map[string]osm.Relations{}
	}
	d.rs[k] = out
	return out, nil
}

var errC13NotFound = errors.New("c13: not found")

func (d *c13DS) NotFound(err error) bool { return err == errC13NotFound }

type c13Elem struct {
	k    string
	id   int64
	ver  int
	mark int
}

func c13Class(op, out string) string {
	i := strings.Index(op, " M ")
	j := strings.Index(op, " H ")
	if j < 0 {
		j = len(op)
	}
	if i < 0 || strings.TrimSpace(strings.Replace(strings.Replace(op[i:j], " M", "", 1), " D", "", 1)) == "" {
		return "trivial-no-updates"
	}
	switch {
	case strings.HasPrefix(out, "ok"):
		if strings.Contains(op, "chg 1") {
			return "ok-ignore"
		}
		return "ok"
	case strings.HasPrefix(out, "err novisible"):
		return "err-novisible"
	case strings.HasPrefix(out, "err other"):
		return "err-other"
	}
	return "other"
}

func c13Exec(op string) (string, *Violation) {
	f := fields(op)
	if f[0] != "chg" {
		return "bad-op", nil
	}
	ignore := f[1] == "1"
	sec := ""
	var groups = map[string][]c13Elem{}
	ds := &c13DS{hist: map[string][]int{}, bad: map[string]bool{}}
	base := map[string]int{"C": 0, "M": 100, "D": 200}
	for _, t := range f[2:] {
		if t == "C" || t == "M" || t == "D" || t == "H" {
			sec = t
			continue
		}
		if sec == "H" {
			kv := strings.SplitN(t, "=", 2)
			if kv[1] == "!" {
				ds.bad[kv[0]] = true
				continue
			}
			vs := []int{}
			if kv[1] != "" {
				for _, s := range strings.Split(kv[1], ",") {
					v, _ := strconv.Atoi(s)
					vs = append(vs, v)
				}
			}
			if _, dup := ds.hist[kv[0]]; !dup && !ds.bad[kv[0]] {
				ds.hist[kv[0]] = vs
			}
			continue
		}
		p := strings.Split(t, ":")
		id, _ := strconv.ParseInt(p[1], 10, 64)
		ver, _ := strconv.Atoi(p[2])
		groups[sec] = append(groups[sec], c13Elem{p[0], id, ver, base[sec] + len(groups[sec])})
	}
	mk := func(es []c13Elem) *osm.OSM {
		if len(es) == 0 {
			return nil
		}
		o := &osm.OSM{}
		for _, e := range es {
			switch e.k {
			case "n":
				o.Nodes = append(o.Nodes, &osm.Node{ID: osm.NodeID(e.id), Version: e.ver, ChangesetID: osm.ChangesetID(e.mark)})
			case "w":
				o.Ways = append(o.Ways, &osm.Way{ID: osm.WayID(e.id), Version: e.ver, ChangesetID: osm.ChangesetID(e.mark)})
			case "r":
				o.Relations = append(o.Relations, &osm.Relation{ID: osm.RelationID(e.id), Version: e.ver, ChangesetID: osm.ChangesetID(e.mark)})
			}
		}
		return o
	}
	change := &osm.Change{Create: mk(groups["C"]), Modify: mk(groups["M"]), Delete: mk(groups["D"])}
	var opts []annotate.Option
	if ignore {
		opts = append(opts, annotate.IgnoreMissingChildren(true))
	}
	diff, err := annotate.Change(context.Background(), change, ds, opts...)

	// ---- expected by the property (independent of the model)
	ordered := func(es []c13Elem) []c13Elem {
		var out []c13Elem
		for _, k := range []string{"n", "w", "r"} {
			for _, e := range es {
				if e.k == k {
					out = append(out, e)
				}
			}
		}
		return out
	}
	type exp struct {
		typ     string
		e       c13Elem
		vis     bool
		oldVer  int
		hasOld  bool
		errKind string
		errFID  string
	}
	var want []exp
	wantErr, wantErrFID := "", ""
	for _, e := range ordered(groups["C"]) {
		want = append(want, exp{typ: "create", e: e, vis: true})
	}
	kn := map[string]string{"n": "node", "w": "way", "r": "relation"}
outer:
	for _, blk := range []string{"M", "D"} {
		for _, e := range ordered(groups[blk]) {
			key := ds.key(e.k, e.id)
			if ds.bad[key] {
				wantErr = "other"
				break outer
			}
			vs, ok := ds.hist[key]
			best, found := -1, false
			if ok {
				for _, v := range vs {
					if v >= 0 && v < e.ver && v > best {
						best, found = v, true
					}
				}
			}
			if !found {
				if ignore {
					want = append(want, exp{typ: "create", e: e, vis: true})
					continue
				}
				wantErr, wantErrFID = "novisible", kn[e.k]+"/"+strconv.FormatInt(e.id, 10)
				break outer
			}
			t := "modify"
			if blk == "D" {
				t = "delete"
			}
			want = append(want, exp{typ: t, e: e, vis: blk == "M", oldVer: best, hasOld: true})
		}
	}

	if err != nil {
		out := "err other"
		var nv *annotate.NoVisibleChildError
		if errors.As(err, &nv) {
			out = "err novisible " + nv.ID.String()
		} else if err != errC13Other {
			out = "err unexpected " + hx(err.Error())
		}
		if wantErr == "" {
			return out, &Violation{Signature: "unexpected-error", Text: fmt.Sprintf("Change returned %v, expected a diff", err)}
		}
		if (wantErr == "other") != (out == "err other") || (wantErr == "novisible" && out != "err novisible "+wantErrFID) {
			return out, &Violation{Signature: "wrong-error", Text: fmt.Sprintf("Change returned %q, expected %s %s", out, wantErr, wantErrFID)}
		}
		return out, nil
	}
	var b strings.Builder
	b.WriteString("ok")
	var viol *Violation
	if wantErr != "" {
		viol = &Violation{Signature: "missing-error", Text: fmt.Sprintf("Change succeeded, expected error %s %s", wantErr, wantErrFID)}
	} else if len(diff.Actions) != len(want) {
		viol = &Violation{Signature: "action-count", Text: fmt.Sprintf("%d actions, expected %d", len(diff.Actions), len(want))}
	}
	for i, a := range diff.Actions {
		nw := a.New
		if a.Type == osm.ActionCreate {
			nw = a.OSM
		}
		desc := func(o *osm.OSM) (k string, id int64, ver, mark int, vis bool, n int) {
			if o == nil {
				return "?", 0, 0, 0, false, 0
			}
			n = len(o.Nodes) + len(o.Ways) + len(o.Relations)
			switch {
			case len(o.Nodes) > 0:
				x := o.Nodes[0]
				return "n", int64(x.ID), x.Version, int(x.ChangesetID), x.Visible, n
			case len(o.Ways) > 0:
				x := o.Ways[0]
				return "w", int64(x.ID), x.Version, int(x.ChangesetID), x.Visible, n
			case len(o.Relations) > 0:
				x := o.Relations[0]
				return "r", int64(x.ID), x.Version, int(x.ChangesetID), x.Visible, n
			}
			return "?", 0, 0, 0, false, 0
		}
		k, id, ver, mark, vis, n := desc(nw)
		v := 0
		if vis {
			v = 1
		}
		fmt.Fprintf(&b, " %s:%s:%d:%d@%d:v%d", a.Type, k, id, ver, mark, v)
		if n != 1 && viol == nil {
			viol = &Violation{Signature: "action-element-count", Text: fmt.Sprintf("action %d carries %d elements", i, n)}
		}
		hasOld := false
		oldVer := 0
		if a.Type != osm.ActionCreate {
			_, oid, over, omark, _, on := desc(a.Old)
			fmt.Fprintf(&b, "<%d@%d", over, omark)
			hasOld, oldVer = on == 1, over
			if oid != id && viol == nil {
				viol = &Violation{Signature: "old-of-other-element", Text: fmt.Sprintf("action %d: old id %d, new id %d", i, oid, id)}
			}
		}
		if viol == nil && i < len(want) {
			w := want[i]
			if string(a.Type) != w.typ || k != w.e.k || id != w.e.id || ver != w.e.ver || mark != w.e.mark {
				viol = &Violation{Signature: "action-order-or-type", Text: fmt.Sprintf("action %d is %s %s/%d v%d (mark %d), expected %s %s/%d v%d (mark %d)", i, a.Type, k, id, ver, mark, w.typ, w.e.k, w.e.id, w.e.ver, w.e.mark)}
			} else if vis != w.vis {
				viol = &Violation{Signature: "visible-flag", Text: fmt.Sprintf("action %d (%s): new.visible=%v expected %v", i, a.Type, vis, w.vis)}
			} else if hasOld != w.hasOld || (hasOld && oldVer != w.oldVer) {
				viol = &Violation{Signature: "old-version-not-greatest-below", Text: fmt.Sprintf("action %d (%s %s/%d v%d): old version %d (present %v), expected %d (present %v)", i, a.Type, k, id, ver, oldVer, hasOld, w.oldVer, w.hasOld)}
			}
		}
	}
	return b.String(), viol
}

func c13Gen(r *Rng, tier string, emit func(string)) {
	n := 20000
	if tier == "thorough" {
		n = 400000
	}
	kinds := []string{"n", "w", "r"}
	for i := 0; i < n; i++ {
		var b strings.Builder
		ign := r.Chance(35)
		if ign {
			b.WriteString("chg 1")
		} else {
			b.WriteString("chg 0")
		}
		nids := 1 + r.Intn(4)
		used := map[string]int{} // key -> max version used
		var keys []string
		for _, sec := range []string{"C", "M", "D"} {
			b.WriteString(" " + sec)
			cnt := r.Intn(4)
			if sec != "C" && r.Chance(30) {
				cnt += r.Intn(3)
			}
			for j := 0; j < cnt; j++ {
				k := kinds[r.Intn(3)]
				id := int64(1 + r.Intn(nids))
				ver := 1 + r.Intn(9)
				if r.Chance(5) {
					ver = r.Intn(2) // versions 0 and 1: nothing below
				}
				fmt.Fprintf(&b, " %s:%d:%d", k, id, ver)
				key := k + ":" + strconv.FormatInt(id, 10)
				if _, ok := used[key]; !ok {
					keys = append(keys, key)
				}
				if ver > used[key] {
					used[key] = ver
				} else if _, ok := used[key]; !ok {
					used[key] = ver
				}
			}
		}
		b.WriteString(" H")
		for _, key := range keys {
			p := r.Intn(100)
			// mostly valid: a history that has something below the used version
			missingP, badP := 6, 3
			if ign {
				missingP = 20
			}
			switch {
			case p < missingP:
				continue // absent -> not found
			case p < missingP+badP:
				b.WriteString(" " + key + "=!")
				continue
			case p < missingP+badP+3:
				b.WriteString(" " + key + "=")
				continue
			}
			top := used[key] + r.Intn(4)
			var vs []int
			for v := 1; v <= top; v++ {
				if r.Chance(75) {
					vs = append(vs, v)
				}
			}
			if r.Chance(10) {
				vs = append(vs, 0)
			}
			if r.Chance(15) && len(vs) > 0 {
				vs = append(vs, vs[r.Intn(len(vs))]) // duplicate version
			}
			if r.Chance(60) { // unsorted
				p := r.Perm(len(vs))
				sh := make([]int, len(vs))
				for a, c := range p {
					sh[a] = vs[c]
				}
				vs = sh
			}
			ss := make([]string, len(vs))
			for a, v := range vs {
				ss[a] = strconv.Itoa(v)
			}
			b.WriteString(" " + key + "=" + strings.Join(ss, ","))
		}
		emit(b.String())
	}
}
