package main

import (
	"bytes"
	"context"
	"fmt"
	"io"
	"runtime"
	"strconv"
	"strings"
	"time"

	"github.com/paulmach/osm"
	"github.com/paulmach/osm/osmpbf"
)

// C02 — parallel decoding preserves file order under every schedule. Op:
//
//	par <procs> <timing seed> FILE…     scan with procs decoders under perturbed timing; built with the race detector
func init() {
	register(&Prop{
		ID: "C02",
		Rule: "valid PBF files of 0..40 small blocks (more blocks than the 10-slot channel budget) scanned with 1,2,3,4,5,7,8,11,16,32 decoders (including more decoders than blocks) under perturbed timing: the input reader delivers irregular chunks and stalls, filter callbacks make individual blocks slow or fast (a later block finishing before an earlier one), the consumer stalls while retaining every returned object; the result is compared with the format model, with the single-decoder scan; files with a damaged block after intact ones and the earlier blocks slowed down (the prefix of intact blocks must still arrive, then the error), and the retained objects are compared again at the end; the whole harness runs under the Go race detector; " +
			"non-trivial = file with at least two blocks; distinct = distinct op line",
		Gen:  c02Gen,
		Exec: c02Exec,
		Class: func(op, out string) string {
			if strings.Count(op, " B ") < 2 {
				return "trivial-few-blocks"
			}
			return "par"
		},
	})
}

// stallReader hands out the data in irregular chunks and stalls now and then.
type stallReader struct {
	r     *bytes.Reader
	rng   *Rng
	count int64
}

func (s *stallReader) Read(p []byte) (int, error) {
	if len(p) > 1 && s.rng.Chance(60) {
		p = p[:1+s.rng.Intn(len(p))]
	}
	switch s.rng.Intn(12) {
	case 0:
		time.Sleep(time.Duration(s.rng.Intn(300)) * time.Microsecond)
	case 1, 2:
		runtime.Gosched()
	}
	n, err := s.r.Read(p)
	s.count += int64(n)
	return n, err
}

var _ io.Reader = (*stallReader)(nil)

// jitter delays the calling goroutine depending on the element: whole blocks become slow or fast.
func jitter(seed uint64, id int64) {
	h := (uint64(id)/3 + seed) * 0x9e3779b97f4a7c15
	switch (h >> 60) & 7 {
	case 0:
		time.Sleep(time.Duration(50+(h>>40)%400) * time.Microsecond)
	case 1, 2:
		runtime.Gosched()
	}
}

func c02Exec(op string) (string, *Violation) {
	f := fields(op)
	if f[0] == "pard" {
		return c02Damaged(f)
	}
	if f[0] != "par" || len(f) < 3 {
		return "bad-op", nil
	}
	procs, _ := strconv.Atoi(f[1])
	tseed, _ := strconv.ParseUint(f[2], 10, 64)
	pf, err := ParsePFile(f[3:])
	if err != nil {
		return "bad-op", nil
	}
	data := joinFrames(pf.Frames())
	rng := NewRng(tseed)
	s := osmpbf.New(context.Background(), &stallReader{r: bytes.NewReader(data), rng: NewRng(tseed ^ 0x77)}, procs)
	s.FilterNode = func(n *osm.Node) bool { jitter(tseed, int64(n.ID)); return true }
	s.FilterWay = func(w *osm.Way) bool { jitter(tseed, int64(w.ID)); return true }
	s.FilterRelation = func(r *osm.Relation) bool { jitter(tseed, int64(r.ID)); return true }
	var h *osmpbf.Header
	var objs []osm.Object
	var snaps []string
	var serr error
	done := make(chan struct{})
	go func() {
		defer close(done)
		var herr error
		h, herr = s.Header()
		if herr == nil {
			for s.Scan() {
				o := s.Object()
				objs = append(objs, o)
				snaps = append(snaps, pObject(o))
				if rng.Chance(5) {
					time.Sleep(time.Duration(rng.Intn(200)) * time.Microsecond)
				}
			}
		}
		serr = s.Err()
		s.Close()
	}()
	select {
	case <-done:
	case <-time.After(30 * time.Second):
		return "HANG", &Violation{Signature: "pbf-hang", Text: fmt.Sprintf("the scan with %d decoders does not finish (30s)", procs)}
	}
	line := pScanLine(h, objs, serr)
	if serr != nil {
		return line, &Violation{Signature: "pbf-valid-file-error", Text: "scanning a valid PBF file ends in an error: " + serr.Error()}
	}
	for i, o := range objs {
		if now := pObject(o); now != snaps[i] {
			return line, &Violation{Signature: "pbf-returned-object-modified", Text: fmt.Sprintf("object %d was modified after the scanner returned it:\nwhen returned: %s\nat end of scan: %s", i, snaps[i], now)}
		}
	}
	// single decoder, undisturbed
	_, one, oerr := pbfScan(data, scanOpts{procs: 1})
	if oerr != nil {
		return line, &Violation{Signature: "pbf-valid-file-error", Text: "single-decoder scan error: " + oerr.Error()}
	}
	if len(one) != len(objs) {
		return line, &Violation{Signature: "pbf-parallel-count", Text: fmt.Sprintf("%d decoders deliver %d objects, one decoder %d", procs, len(objs), len(one))}
	}
	for i := range one {
		if pObject(one[i]) != snaps[i] {
			return line, &Violation{Signature: "pbf-parallel-order", Text: fmt.Sprintf("object %d differs between %d decoders and one decoder:\n%s\n%s", i, procs, snaps[i], pObject(one[i]))}
		}
	}
	return line, nil
}

// c02Damaged: pard <procs> <tseed> <class> <pos> FILE — a damaged block after intact ones, earlier blocks slowed
// down so that the damaged block is decoded (and fails) before they have been handed over: every object of the
// intact blocks must still arrive, in order, followed by the error.
func c02Damaged(f []string) (string, *Violation) {
	if len(f) < 6 {
		return "bad-op", nil
	}
	procs, _ := strconv.Atoi(f[1])
	tseed, _ := strconv.ParseUint(f[2], 10, 64)
	pos, _ := strconv.Atoi(f[4])
	pf, err := ParsePFile(f[5:])
	if err != nil {
		return "bad-op", nil
	}
	data, ok := c06Damaged(pf, f[3], pos)
	if !ok {
		return "not-applicable", nil
	}
	slow := func(id int64) {
		h := (uint64(id) + tseed) * 0x9e3779b97f4a7c15
		if (h>>61)&1 == 0 {
			time.Sleep(time.Duration(200+(h>>40)%900) * time.Microsecond)
		} else {
			runtime.Gosched()
		}
	}
	s := osmpbf.New(context.Background(), &stallReader{r: bytes.NewReader(data), rng: NewRng(tseed ^ 0x77)}, procs)
	s.FilterNode = func(n *osm.Node) bool { slow(int64(n.ID)); return true }
	s.FilterWay = func(w *osm.Way) bool { slow(int64(w.ID)); return true }
	s.FilterRelation = func(r *osm.Relation) bool { slow(int64(r.ID)); return true }
	var h *osmpbf.Header
	var objs []osm.Object
	var serr error
	done := make(chan struct{})
	go func() {
		defer close(done)
		var herr error
		h, herr = s.Header()
		if herr == nil {
			for s.Scan() {
				objs = append(objs, s.Object())
			}
		}
		serr = s.Err()
		s.Close()
	}()
	select {
	case <-done:
	case <-time.After(30 * time.Second):
		return "HANG", &Violation{Signature: "pbf-hang", Text: fmt.Sprintf("the scan of a damaged stream with %d decoders does not finish (30s)", procs)}
	}
	line := c06Line(h != nil, objs, serr)
	if serr == nil {
		return line, &Violation{Signature: "pbf-damage-silent-success-" + f[3], Text: "a damaged stream is scanned to the end without an error"}
	}
	return line, nil
}

func c02Gen(r *Rng, tier string, emit func(string)) {
	n := 150
	if tier == "thorough" {
		n = 2500
	}
	procs := []int{1, 2, 3, 4, 5, 7, 8, 11, 16, 32}
	for i := 0; i < n; i++ {
		nb := r.Intn(41)
		pf := genPFile(r, 0, 0)
		for b := 0; b < nb; b++ {
			one := genPFile(r, 1, 3)
			if len(one.Blocks) > 0 {
				pf.Blocks = append(pf.Blocks, one.Blocks[0])
			}
		}
		emit(fmt.Sprintf("par %d %d %s", procs[r.Intn(len(procs))], r.U64()>>1, pf.Tokens()))
		// the same file with a damaged block late in the file
		if len(pf.Blocks) >= 3 && i%3 == 0 {
			classes := []string{"plain-nodes", "zlib-corrupt", "rawsize-wrong", "type-unknown", "datasize-oversized", "dense-no-ids", "string-oob-dense"}
			pos := 2 + r.Intn(len(pf.Blocks)-1)
			for try := 0; try < 6; try++ {
				c := classes[r.Intn(len(classes))]
				if _, ok := c06Damaged(pf, c, pos); ok {
					emit(fmt.Sprintf("pard %d %d %s %d %s", procs[1+r.Intn(len(procs)-1)], r.U64()>>1, c, pos, pf.Tokens()))
					break
				}
			}
		}
	}
}
