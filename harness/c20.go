package main

import (
	"context"
	"errors"
	"fmt"
	"io"
	"net/http"
	"net/url"
	"strconv"
	"strings"
	"time"

	"github.com/paulmach/osm"
	"github.com/paulmach/osm/osmapi"
)

// C20 — osmapi. Op:
//
//	call <Method> <base hex> <ints|-> <floats|-> <opts|-> <data hex> <query hex> <status> <n> <d> <limiter 0|1|err>
//
// ints: id[,version]; floats: the four bbox values with seven decimals (the exact arguments); opts: at:<hex time>, limit:N, closed:N;
// data: comma separated ids of a multi-fetch; query: url-escaped notes search text;
// the fake server answers <status> with a body holding n elements of the endpoint's own kind and d of another.
func init() {
	register(&Prop{
		ID: "C20",
		Rule: "every endpoint (26 exported Datasource methods) x ids {0,1,boundary,random} / id lists of 1..6 / bboxes x option sets (none, At, Limit in and out of range, MaxDaysClosed, combinations) x 3 base URLs x limiter {absent, present, failing} x statuses {200,404,403,410,414, every other code 100..599 sampled} x bodies with 0/1/many elements plus distractors; " +
			"note search texts with + & = ; # %; queries compared by decoded key/value pairs; " +
			"non-trivial = a request was issued; distinct = distinct op line",
		Gen:   c20Gen,
		Exec:  c20Exec,
		Class: c20Class,
	})
}

type c20RT struct {
	events *[]string
	status int
	body   string
	urls   []string
}

func (rt *c20RT) RoundTrip(req *http.Request) (*http.Response, error) {
	*rt.events = append(*rt.events, "request")
	rt.urls = append(rt.urls, req.Method+" "+req.URL.String())
	return &http.Response{StatusCode: rt.status, Status: strconv.Itoa(rt.status), Body: io.NopCloser(strings.NewReader(rt.body)), Header: http.Header{}, Request: req}, nil
}

type c20Limiter struct {
	events *[]string
	fail   bool
}

var errC20Limiter = errors.New("limiter: no")

func (l *c20Limiter) Wait(ctx context.Context) error {
	*l.events = append(*l.events, "wait")
	if l.fail {
		return errC20Limiter
	}
	return nil
}

// documented API v0.6 paths, pinned independently of the source and of the Lean spec: path template (after the base),
// own element kind of the response, single-element?
type c20Doc struct {
	path   string
	kind   string
	single bool
	opt    string
}

var c20Docs = map[string]c20Doc{
	"Node": {"/node/%d", "node", true, "feature"}, "Way": {"/way/%d", "way", true, "feature"}, "Relation": {"/relation/%d", "relation", true, "feature"},
	"NodeVersion": {"/node/%d/%d", "node", true, ""}, "WayVersion": {"/way/%d/%d", "way", true, ""}, "RelationVersion": {"/relation/%d/%d", "relation", true, ""},
	"NodeHistory": {"/node/%d/history", "node", false, ""}, "WayHistory": {"/way/%d/history", "way", false, ""}, "RelationHistory": {"/relation/%d/history", "relation", false, ""},
	"Nodes": {"/nodes", "node", false, "feature"}, "Ways": {"/ways", "way", false, "feature"}, "Relations": {"/relations", "relation", false, "feature"},
	"NodeWays": {"/node/%d/ways", "way", false, "feature"}, "NodeRelations": {"/node/%d/relations", "relation", false, "feature"},
	"WayRelations": {"/way/%d/relations", "relation", false, "feature"}, "RelationRelations": {"/relation/%d/relations", "relation", false, "feature"},
	"WayFull": {"/way/%d/full", "all", false, "feature"}, "RelationFull": {"/relation/%d/full", "all", false, "feature"},
	"Map":       {"/map", "all", false, "feature"},
	"Changeset": {"/changeset/%d", "changeset", true, ""}, "ChangesetWithDiscussion": {"/changeset/%d", "changeset", true, ""},
	"ChangesetDownload": {"/changeset/%d/download", "change", false, ""},
	"Note":              {"/notes/%d", "note", true, ""}, "Notes": {"/notes", "note", false, "notes"}, "NotesSearch": {"/notes/search", "note", false, "notes"},
	"User": {"/user/%d", "user", true, ""},
}

var c20Methods = []string{"Node", "Way", "Relation", "NodeVersion", "WayVersion", "RelationVersion", "NodeHistory", "WayHistory", "RelationHistory",
	"Nodes", "Ways", "Relations", "NodeWays", "NodeRelations", "WayRelations", "RelationRelations", "WayFull", "RelationFull", "Map",
	"Changeset", "ChangesetWithDiscussion", "ChangesetDownload", "Note", "Notes", "NotesSearch", "User"}

func c20Elem(kind string, i int) string {
	switch kind {
	case "node":
		return fmt.Sprintf(`<node id="%d" version="1" lat="1.5" lon="2.5" visible="true"/>`, 100+i)
	case "way":
		return fmt.Sprintf(`<way id="%d" version="1" visible="true"><nd ref="1"/></way>`, 200+i)
	case "relation":
		return fmt.Sprintf(`<relation id="%d" version="1" visible="true"><member type="node" ref="1" role=""/></relation>`, 300+i)
	case "changeset":
		return fmt.Sprintf(`<changeset id="%d" uid="1" user="u" open="false"/>`, 400+i)
	case "note":
		return fmt.Sprintf(`<note lat="1" lon="2"><id>%d</id><status>open</status></note>`, 500+i)
	case "user":
		return fmt.Sprintf(`<user id="%d" display_name="u"/>`, 600+i)
	}
	return ""
}

func c20Body(kind string, n, d int) string {
	var b strings.Builder
	if kind == "change" {
		b.WriteString(`<osmChange version="0.6">`)
		for i := 0; i < n; i++ {
			b.WriteString(`<create>` + c20Elem("node", i) + `</create>`)
		}
		b.WriteString(`</osmChange>`)
		return b.String()
	}
	b.WriteString(`<?xml version="1.0" encoding="UTF-8"?><osm version="0.6" generator="fake">`)
	own, other := kind, "way"
	if kind == "way" {
		other = "node"
	}
	if kind == "all" {
		own, other = "node", "relation"
	}
	// distractors first, then the endpoint's own kind, interleaved for n > 1
	for i := 0; i < d; i++ {
		b.WriteString(c20Elem(other, i))
	}
	for i := 0; i < n; i++ {
		b.WriteString(c20Elem(own, i))
	}
	b.WriteString(`</osm>`)
	return b.String()
}

func c20Class(op, out string) string {
	f := fields(op)
	if strings.Contains(out, "reqs=0") {
		return "trivial-no-request"
	}
	i := strings.Index(out, "res=")
	r := out[i+4:]
	if strings.HasPrefix(r, "ok") {
		r = "ok"
	}
	return f[1] + "/" + r
}

func c20Exec(op string) (string, *Violation) {
	f := fields(op)
	if len(f) != 12 || f[0] != "call" {
		return "bad-op", nil
	}
	name := f[1]
	base, _ := unhx(f[2])
	var ints []int64
	if f[3] != "-" {
		for _, s := range strings.Split(f[3], ",") {
			x, _ := strconv.ParseInt(s, 10, 64)
			ints = append(ints, x)
		}
	}
	var fl []float64
	if f[4] != "-" {
		for _, s := range strings.Split(f[4], ",") {
			x, _ := strconv.ParseFloat(s, 64)
			fl = append(fl, x)
		}
	}
	var fopts []osmapi.FeatureOption
	var nopts []osmapi.NotesOption
	wantArgErr := false
	var wantParams []string
	if f[5] != "-" {
		for _, o := range strings.Split(f[5], ",") {
			kv := strings.SplitN(o, ":", 2)
			switch kv[0] {
			case "at":
				// at:<hex of the UTC text>[@<zone offset seconds>] — the same instant handed over in another location
				zone := 0
				if i := strings.Index(kv[1], "@"); i >= 0 {
					zone, _ = strconv.Atoi(kv[1][i+1:])
					kv[1] = kv[1][:i]
				}
				ts, _ := unhx(kv[1])
				t, err := time.Parse("2006-01-02T15:04:05Z", ts)
				if err != nil {
					return "bad-op", nil
				}
				if zone != 0 {
					t = t.In(time.FixedZone("zone", zone))
				}
				fopts = append(fopts, osmapi.At(t))
				wantParams = append(wantParams, "at="+ts)
			case "limit":
				n, _ := strconv.Atoi(kv[1])
				nopts = append(nopts, osmapi.Limit(n))
				if n < 1 || n > 10000 {
					wantArgErr = true
				}
				wantParams = append(wantParams, "limit="+kv[1])
			case "closed":
				n, _ := strconv.Atoi(kv[1])
				nopts = append(nopts, osmapi.MaxDaysClosed(n))
				wantParams = append(wantParams, "closed="+kv[1])
			}
		}
	}
	data, _ := unhx(f[6])
	queryEsc, _ := unhx(f[7])
	query, _ := url.QueryUnescape(queryEsc)
	status, _ := strconv.Atoi(f[8])
	n, _ := strconv.Atoi(f[9])
	d, _ := strconv.Atoi(f[10])
	doc, ok := c20Docs[name]
	if !ok {
		return "bad-op", nil
	}
	var events []string
	rt := &c20RT{events: &events, status: status, body: c20Body(doc.kind, n, d)}
	ds := &osmapi.Datasource{BaseURL: base, Client: &http.Client{Transport: rt}}
	switch f[11] {
	case "1":
		ds.Limiter = &c20Limiter{events: &events}
	case "err":
		ds.Limiter = &c20Limiter{events: &events, fail: true}
	}
	ctx := context.Background()
	id := int64(0)
	ver := 0
	if len(ints) > 0 {
		id = ints[0]
	}
	if len(ints) > 1 {
		ver = int(ints[1])
	}
	var ids []int64
	if data != "" {
		for _, s := range strings.Split(data, ",") {
			x, _ := strconv.ParseInt(s, 10, 64)
			ids = append(ids, x)
		}
	}
	bounds := &osm.Bounds{}
	if len(fl) == 4 {
		bounds = &osm.Bounds{MinLon: fl[0], MinLat: fl[1], MaxLon: fl[2], MaxLat: fl[3]}
	}
	count := -1
	var err error
	switch name {
	case "Node":
		var x *osm.Node
		x, err = ds.Node(ctx, osm.NodeID(id), fopts...)
		if x != nil {
			count = 1
		}
	case "Way":
		var x *osm.Way
		x, err = ds.Way(ctx, osm.WayID(id), fopts...)
		if x != nil {
			count = 1
		}
	case "Relation":
		var x *osm.Relation
		x, err = ds.Relation(ctx, osm.RelationID(id), fopts...)
		if x != nil {
			count = 1
		}
	case "NodeVersion":
		var x *osm.Node
		x, err = ds.NodeVersion(ctx, osm.NodeID(id), ver)
		if x != nil {
			count = 1
		}
	case "WayVersion":
		var x *osm.Way
		x, err = ds.WayVersion(ctx, osm.WayID(id), ver)
		if x != nil {
			count = 1
		}
	case "RelationVersion":
		var x *osm.Relation
		x, err = ds.RelationVersion(ctx, osm.RelationID(id), ver)
		if x != nil {
			count = 1
		}
	case "NodeHistory":
		var x osm.Nodes
		x, err = ds.NodeHistory(ctx, osm.NodeID(id))
		count = len(x)
	case "WayHistory":
		var x osm.Ways
		x, err = ds.WayHistory(ctx, osm.WayID(id))
		count = len(x)
	case "RelationHistory":
		var x osm.Relations
		x, err = ds.RelationHistory(ctx, osm.RelationID(id))
		count = len(x)
	case "Nodes":
		var q []osm.NodeID
		for _, i := range ids {
			q = append(q, osm.NodeID(i))
		}
		var x osm.Nodes
		x, err = ds.Nodes(ctx, q, fopts...)
		count = len(x)
	case "Ways":
		var q []osm.WayID
		for _, i := range ids {
			q = append(q, osm.WayID(i))
		}
		var x osm.Ways
		x, err = ds.Ways(ctx, q, fopts...)
		count = len(x)
	case "Relations":
		var q []osm.RelationID
		for _, i := range ids {
			q = append(q, osm.RelationID(i))
		}
		var x osm.Relations
		x, err = ds.Relations(ctx, q, fopts...)
		count = len(x)
	case "NodeWays":
		var x osm.Ways
		x, err = ds.NodeWays(ctx, osm.NodeID(id), fopts...)
		count = len(x)
	case "NodeRelations":
		var x osm.Relations
		x, err = ds.NodeRelations(ctx, osm.NodeID(id), fopts...)
		count = len(x)
	case "WayRelations":
		var x osm.Relations
		x, err = ds.WayRelations(ctx, osm.WayID(id), fopts...)
		count = len(x)
	case "RelationRelations":
		var x osm.Relations
		x, err = ds.RelationRelations(ctx, osm.RelationID(id), fopts...)
		count = len(x)
	case "WayFull":
		var x *osm.OSM
		x, err = ds.WayFull(ctx, osm.WayID(id), fopts...)
		if x != nil {
			count = len(x.Nodes) + len(x.Ways) + len(x.Relations)
		}
	case "RelationFull":
		var x *osm.OSM
		x, err = ds.RelationFull(ctx, osm.RelationID(id), fopts...)
		if x != nil {
			count = len(x.Nodes) + len(x.Ways) + len(x.Relations)
		}
	case "Map":
		var x *osm.OSM
		x, err = ds.Map(ctx, bounds, fopts...)
		if x != nil {
			count = len(x.Nodes) + len(x.Ways) + len(x.Relations)
		}
	case "Changeset":
		var x *osm.Changeset
		x, err = ds.Changeset(ctx, osm.ChangesetID(id))
		if x != nil {
			count = 1
		}
	case "ChangesetWithDiscussion":
		var x *osm.Changeset
		x, err = ds.ChangesetWithDiscussion(ctx, osm.ChangesetID(id))
		if x != nil {
			count = 1
		}
	case "ChangesetDownload":
		var x *osm.Change
		x, err = ds.ChangesetDownload(ctx, osm.ChangesetID(id))
		if x != nil && err == nil {
			count = 0
			if x.Create != nil {
				count = len(x.Create.Nodes)
			}
		}
	case "Note":
		var x *osm.Note
		x, err = ds.Note(ctx, osm.NoteID(id))
		if x != nil {
			count = 1
		}
	case "Notes":
		var x osm.Notes
		x, err = ds.Notes(ctx, bounds, nopts...)
		count = len(x)
	case "NotesSearch":
		var x osm.Notes
		x, err = ds.NotesSearch(ctx, query, nopts...)
		count = len(x)
	case "User":
		var x *osm.User
		x, err = ds.User(ctx, osm.UserID(id))
		if x != nil {
			count = 1
		}
	}
	// canonical result
	res := ""
	errType := ""
	if err != nil {
		switch e := err.(type) {
		case *osmapi.NotFoundError:
			errType = "NotFoundError"
		case *osmapi.ForbiddenError:
			errType = "ForbiddenError"
		case *osmapi.GoneError:
			errType = "GoneError"
		case *osmapi.RequestURITooLongError:
			errType = "RequestURITooLongError"
		case *osmapi.UnexpectedStatusCodeError:
			errType = "UnexpectedStatusCodeError"
			_ = e
		default:
			switch {
			case err == errC20Limiter:
				errType = "limiter"
			case strings.Contains(err.Error(), "wrong number of"):
				errType = "count"
			case strings.Contains(err.Error(), "osmapi: limit must be"):
				errType = "arg"
			default:
				errType = "other:" + hx(err.Error())
			}
		}
		res = "err:" + errType
	} else {
		res = "ok:" + strconv.Itoa(count)
	}
	u := "-"
	if len(rt.urls) > 0 {
		u = hx(c20CanonURL(strings.TrimPrefix(rt.urls[0], "GET ")))
	}
	out := fmt.Sprintf("url=%s reqs=%d res=%s", u, len(rt.urls), res)

	// ---- direct oracle (documented behaviour, independent of the Lean model)
	viol := func(sig, format string, a ...interface{}) (string, *Violation) {
		return out, &Violation{Signature: sig, Text: name + ": " + fmt.Sprintf(format, a...)}
	}
	if wantArgErr {
		if len(rt.urls) != 0 || errType != "arg" {
			return viol("option-error", "invalid option must fail before any request; got %d requests, %s", len(rt.urls), res)
		}
		return out, nil
	}
	if f[11] == "err" {
		if len(rt.urls) != 0 || errType != "limiter" {
			return viol("limiter-error-ignored", "failing limiter: %d requests, %s", len(rt.urls), res)
		}
		return out, nil
	}
	if len(rt.urls) != 1 {
		return viol("request-count", "%d requests issued, expected exactly one (%v)", len(rt.urls), rt.urls)
	}
	if !strings.HasPrefix(rt.urls[0], "GET ") {
		return viol("method", "request %q is not a GET", rt.urls[0])
	}
	if f[11] == "1" && (len(events) != 2 || events[0] != "wait" || events[1] != "request") {
		return viol("limiter-order", "events %v, expected wait then request", events)
	}
	if f[11] == "0" && len(events) != 1 {
		return viol("limiter-order", "events %v", events)
	}
	// URL: base + documented path, query with the documented keys
	got := strings.TrimPrefix(rt.urls[0], "GET ")
	if !strings.HasPrefix(got, base) {
		return viol("base-url", "request %q not under base %q", got, base)
	}
	rest := got[len(base):]
	path, rawq := rest, ""
	if i := strings.Index(rest, "?"); i >= 0 {
		path, rawq = rest[:i], rest[i+1:]
	}
	wantPath := doc.path
	switch strings.Count(doc.path, "%d") {
	case 1:
		wantPath = fmt.Sprintf(doc.path, id)
	case 2:
		wantPath = fmt.Sprintf(doc.path, id, ver)
	}
	if path != wantPath {
		return viol("wrong-path", "requested path %q, documented path is %q", path, wantPath)
	}
	// query: split on & keeping order-insensitive comparison of key=value items
	var items []string
	for _, it := range strings.Split(rawq, "&") {
		if it != "" {
			items = append(items, it)
		}
	}
	var wantItems []string
	switch name {
	case "Nodes", "Ways", "Relations":
		wantItems = append(wantItems, strings.ToLower(name)+"="+data)
	case "Map", "Notes":
		// the box requested is the box given: OSM coordinates have seven decimals, and each value of the query
		// must read back as the argument
		f7 := func(x float64) string { return strconv.FormatFloat(x, 'f', 7, 64) }
		bboxItem := "bbox=" + f7(fl[0]) + "," + f7(fl[1]) + "," + f7(fl[2]) + "," + f7(fl[3])
		for _, it := range items {
			if strings.HasPrefix(it, "bbox=") {
				ps := strings.Split(strings.TrimPrefix(it, "bbox="), ",")
				if len(ps) == 4 {
					bboxItem = it // the text form is free, the four values are what is compared
				}
				for k := 0; k < 4 && k < len(ps); k++ {
					if v, err := strconv.ParseFloat(ps[k], 64); err != nil || v != fl[k] {
						sig := "bbox-differs"
						if ps[k] == strconv.FormatFloat(fl[k], 'f', 6, 64) {
							sig = "bbox-six-decimals" // the recorded finding: %f keeps six decimals, OSM coordinates have seven
						}
						return viol(sig, "the request asks for bbox value %q where the argument is %s (query %q)", ps[k], f7(fl[k]), rawq)
					}
				}
			}
		}
		wantItems = append(wantItems, bboxItem)
	case "NotesSearch":
		wantItems = append(wantItems, "q="+url.QueryEscape(query))
	case "ChangesetWithDiscussion":
		wantItems = append(wantItems, "include_discussion=true")
	}
	wantItems = append(wantItems, wantParams...)
	if c20DecodeItems(items) != c20DecodeItems(wantItems) {
		return viol("wrong-query", "query %q, expected %q", rawq, strings.Join(wantItems, "&"))
	}
	// status mapping
	wantErr := map[int]string{404: "NotFoundError", 403: "ForbiddenError", 410: "GoneError", 414: "RequestURITooLongError"}[status]
	if status != 200 && wantErr == "" {
		wantErr = "UnexpectedStatusCodeError"
	}
	if wantErr != "" {
		if errType != wantErr {
			return viol("status-mapping", "status %d gave %s, expected %s", status, res, wantErr)
		}
		if ds.NotFound(err) != (status == 404) {
			return viol("notfound-test", "NotFound(err) = %v for status %d", ds.NotFound(err), status)
		}
		if count > 0 {
			return viol("partial-data", "status %d returned %d elements together with the error", status, count)
		}
		return out, nil
	}
	// 200: exactly the elements of the response
	wantCount := n
	if doc.kind == "all" {
		wantCount = n + d
	}
	if doc.single {
		if n != 1 {
			if errType != "count" {
				return viol("single-element-guard", "response with %d %ss accepted: %s", n, doc.kind, res)
			}
			return out, nil
		}
		wantCount = 1
	}
	if err != nil || count != wantCount {
		return viol("wrong-elements", "returned %s, the response holds %d", res, wantCount)
	}
	return out, nil
}

func c20Gen(r *Rng, tier string, emit func(string)) {
	bases := []string{"http://api.test/api/0.6", "https://master.apis.dev.openstreetmap.org/api/0.6", "http://localhost:3000/api/0.6"}
	statuses := []int{200, 200, 200, 404, 403, 410, 414, 500, 401, 429, 301, 204, 400}
	idsPool := []int64{0, 1, 2, 7, 1234567, 1<<40 - 1, 9007199254740993}
	times := []string{"2016-01-02T03:04:05Z", "2020-12-31T23:59:59Z", "1999-01-01T00:00:00Z"}
	bbox := func() string {
		// seven decimals, the resolution of OSM coordinates; small boxes included
		f7 := func(n int64) string { return strconv.FormatFloat(float64(n)/1e7, 'f', 7, 64) }
		a, b := r.I64n(3600000000)-1800000000, r.I64n(1790000000)-895000000
		w, h := int64(1+r.Intn(10))*1250000, int64(1+r.Intn(10))*1250000
		if r.Chance(40) {
			w, h = 1+r.I64n(5000), 1+r.I64n(5000)
		}
		// the seventh digit is never 5: %f's rounding of such a value depends on its binary representation
		fix := func(n int64) int64 {
			if n%10 == 5 || n%10 == -5 {
				return n + 1
			}
			return n
		}
		return f7(fix(a)) + "," + f7(fix(b)) + "," + f7(fix(a+w)) + "," + f7(fix(b+h))
	}
	one := func(name string, status int) string {
		doc := c20Docs[name]
		ints, floats, opts, data, query := "-", "-", "-", "", ""
		switch strings.Count(doc.path, "%d") {
		case 1:
			ints = strconv.FormatInt(idsPool[r.Intn(len(idsPool))], 10)
			if r.Chance(40) {
				ints = strconv.FormatInt(r.I64n(1<<33), 10)
			}
		case 2:
			ints = strconv.FormatInt(idsPool[r.Intn(len(idsPool))], 10) + "," + strconv.Itoa(r.Intn(300))
		}
		if name == "Map" || name == "Notes" {
			floats = bbox()
		}
		if name == "Nodes" || name == "Ways" || name == "Relations" {
			k := 1 + r.Intn(6)
			var s []string
			for i := 0; i < k; i++ {
				s = append(s, strconv.FormatInt(idsPool[1+r.Intn(len(idsPool)-1)]+int64(i), 10))
			}
			data = strings.Join(s, ",")
		}
		if name == "NotesSearch" {
			query = url.QueryEscape([]string{"spam", "two words", "a&b=c", "größe", "50%", "x/y?z", "a+b", "closed=-1&limit=9", "p;q #r"}[r.Intn(9)])
		}
		var os []string
		switch doc.opt {
		case "feature":
			if r.Chance(45) {
				o := "at:" + hx(times[r.Intn(len(times))])
				if r.Chance(50) {
					o += "@" + strconv.Itoa([]int{3600, -18000, 19800, 7200, -28800}[r.Intn(5)])
				}
				os = append(os, o)
			}
			if r.Chance(8) {
				os = append(os, "at:"+hx(times[r.Intn(len(times))]))
			}
		case "notes":
			if r.Chance(50) {
				os = append(os, "limit:"+strconv.Itoa([]int{1, 10, 10000, 0, -1, 10001, 500}[r.Intn(7)]))
			}
			if r.Chance(40) {
				os = append(os, "closed:"+strconv.Itoa([]int{0, 7, -1, 365}[r.Intn(4)]))
			}
		}
		if len(os) > 0 {
			opts = strings.Join(os, ",")
		}
		n := []int{0, 1, 1, 1, 2, 5}[r.Intn(6)]
		d := []int{0, 0, 1, 3}[r.Intn(4)]
		lim := []string{"0", "0", "1", "1", "err"}[r.Intn(5)]
		return fmt.Sprintf("call %s %s %s %s %s %s %s %d %d %d %s", name, hx(bases[r.Intn(len(bases))]), ints, floats, opts, hx(data), hx(query), status, n, d, lim)
	}
	reps := 3
	if tier == "thorough" {
		reps = 40
	}
	for _, name := range c20Methods {
		for _, st := range statuses {
			for k := 0; k < reps; k++ {
				emit(one(name, st))
			}
		}
		// every other status code once
		for st := 100; st < 600; st++ {
			if st%7 == 0 || tier == "thorough" {
				emit(one(name, st))
			}
		}
	}
}

// c20DecodeItems gives the meaning of a query: the key/value pairs in order, each percent-decoded. How a byte is
// escaped (%20 or + for a space, upper or lower case hex, an escaped letter) is free; what the server reads is not.
func c20DecodeItems(items []string) string {
	var b strings.Builder
	for _, it := range items {
		k, v := it, ""
		if i := strings.Index(it, "="); i >= 0 {
			k, v = it[:i], it[i+1:]
		}
		dk, err1 := url.QueryUnescape(k)
		dv, err2 := url.QueryUnescape(v)
		if err1 != nil || err2 != nil {
			dk, dv = "!bad-escape:"+k, v
		}
		fmt.Fprintf(&b, "%q=%q&", dk, dv)
	}
	return b.String()
}

// c20CanonURL rewrites the free-text item of a request (q=) into the one escaped form the model prints, so that an
// equivalent escaping is not a difference between model and code.
func c20CanonURL(u string) string {
	i := strings.Index(u, "?")
	if i < 0 {
		return u
	}
	items := strings.Split(u[i+1:], "&")
	for k, it := range items {
		if strings.HasPrefix(it, "q=") {
			if d, err := url.QueryUnescape(it[2:]); err == nil && !strings.ContainsAny(it[2:], "=;") {
				items[k] = "q=" + url.QueryEscape(d)
			}
		}
	}
	return u[:i+1] + strings.Join(items, "&")
}
