package main

import (
	"fmt"
	"strconv"
	"strings"
	"time"

	"github.com/paulmach/orb"
	"github.com/paulmach/osm"
)

// C15 — applying updates. Ops (coordinates are integers k meaning k*0.5 degrees, times are quarter seconds since the epoch):
//
//	way|rel apply <t> N <key:ver:cs:lat:lon:orient>... U <idx:ver:ts:cs:lat:lon:rev>...
//	way|rel compose <t1> <t2> N ... U ...
func init() {
	register(&Prop{
		ID: "C15",
		Rule: "ways/relations with 0..6 children (annotated or not) x update lists of 0..10 updates (index-sorted as annotation produces, time-sorted, or shuffled; several updates per child; out-of-range indices in ~8%) x t on/before/after stamps; compose with t1<=t2; " +
			"times on quarter seconds; negative indices; the element carries a time stamp (every second one a commit time) in the middle of its updates' times; " +
			"non-trivial = at least one update stamped <= t and one stamped > t, or an index error; distinct = distinct op line",
		Gen:   c15Gen,
		Exec:  c15Exec,
		Class: c15Class,
	})
}

type c15Child struct{ key, ver, cs, lat, lon, orient int64 }
type c15Upd struct {
	idx         int
	ver, ts, cs int64
	lat, lon    int64
	rev         bool
}

func c15Parse(f []string) (cs []c15Child, us []c15Upd, ok bool) {
	inU := false
	for _, t := range f {
		if t == "N" {
			inU = false
			continue
		}
		if t == "U" {
			inU = true
			continue
		}
		p := strings.Split(t, ":")
		var v []int64
		for _, s := range p {
			x, err := strconv.ParseInt(s, 10, 64)
			if err != nil {
				return nil, nil, false
			}
			v = append(v, x)
		}
		if inU {
			if len(v) != 7 {
				return nil, nil, false
			}
			us = append(us, c15Upd{int(v[0]), v[1], v[2], v[3], v[4], v[5], v[6] != 0})
		} else {
			if len(v) != 6 {
				return nil, nil, false
			}
			cs = append(cs, c15Child{v[0], v[1], v[2], v[3], v[4], v[5]})
		}
	}
	return cs, us, true
}

// the time unit of the ops is a quarter of a second: update times and query times fall inside one second as commit
// times do, and "at or before t" is an exact comparison, not one of whole seconds. (The model compares integers;
// the unit is the harness's business.)
func c15Time(ts int64) time.Time {
	sec := ts >> 2
	return time.Unix(sec, (ts-sec<<2)*250000000).UTC()
}

func c15Stamp(t time.Time) int64 { return t.Unix()<<2 + int64(t.Nanosecond())/250000000 }

func c15Updates(us []c15Upd) osm.Updates {
	var out osm.Updates
	for _, u := range us {
		out = append(out, osm.Update{Index: u.idx, Version: int(u.ver), Timestamp: c15Time(u.ts), ChangesetID: osm.ChangesetID(u.cs),
			Lat: float64(u.lat) * 0.5, Lon: float64(u.lon) * 0.5, Reverse: u.rev})
	}
	return out
}

// c15OwnTime gives the element itself a time stamp (and for every second case a commit time) in the middle of its
// updates' times. The property does not mention the element's own time: updates stamped before it are applied like
// any others.
func c15OwnTime(us []c15Upd) (time.Time, *time.Time) {
	if len(us) == 0 {
		return time.Time{}, nil
	}
	m := us[len(us)/2]
	ts := c15Time(m.ts)
	if (m.ts+int64(len(us)))%2 == 0 {
		return ts, nil
	}
	c := c15Time(m.ts + 1)
	return ts, &c
}

func c15Way(cs []c15Child, us []c15Upd) *osm.Way {
	w := &osm.Way{ID: 1, Version: 1, Visible: true, Updates: c15Updates(us)}
	w.Timestamp, w.Committed = c15OwnTime(us)
	for _, c := range cs {
		w.Nodes = append(w.Nodes, osm.WayNode{ID: osm.NodeID(c.key), Version: int(c.ver), ChangesetID: osm.ChangesetID(c.cs), Lat: float64(c.lat) * 0.5, Lon: float64(c.lon) * 0.5})
	}
	return w
}

func c15Rel(cs []c15Child, us []c15Upd) *osm.Relation {
	r := &osm.Relation{ID: 1, Version: 1, Visible: true, Updates: c15Updates(us)}
	r.Timestamp, r.Committed = c15OwnTime(us)
	for _, c := range cs {
		r.Members = append(r.Members, osm.Member{Type: osm.TypeWay, Ref: c.key, Role: "outer", Version: int(c.ver), ChangesetID: osm.ChangesetID(c.cs),
			Lat: float64(c.lat) * 0.5, Lon: float64(c.lon) * 0.5, Orientation: orbOrient(c.orient)})
	}
	return r
}

func c15PtsStr(ls [][2]float64) string {
	var p []string
	for _, x := range ls {
		p = append(p, fmt.Sprintf("%d,%d", int64(x[0]*2), int64(x[1]*2)))
	}
	return strings.Join(p, " ")
}

func c15ShowState(err error, children []c15Child, pending osm.Updates) string {
	e := "-"
	if err != nil {
		if oe, ok := err.(*osm.UpdateIndexOutOfRangeError); ok {
			e = strconv.Itoa(oe.Index)
		} else {
			e = "other"
		}
	}
	var cs, ps []string
	for _, c := range children {
		cs = append(cs, fmt.Sprintf("%d:%d:%d:%d:%d:%d", c.key, c.ver, c.cs, c.lat, c.lon, c.orient))
	}
	for _, u := range pending {
		ps = append(ps, fmt.Sprintf("%d:%d:%d", u.Index, u.Version, c15Stamp(u.Timestamp)))
	}
	return "err=" + e + " C " + strings.Join(cs, " ") + " P " + strings.Join(ps, " ")
}

func c15WayChildren(w *osm.Way) []c15Child {
	var out []c15Child
	for _, n := range w.Nodes {
		out = append(out, c15Child{int64(n.ID), int64(n.Version), int64(n.ChangesetID), int64(n.Lat * 2), int64(n.Lon * 2), 0})
	}
	return out
}
func c15RelChildren(r *osm.Relation) []c15Child {
	var out []c15Child
	for _, m := range r.Members {
		out = append(out, c15Child{m.Ref, int64(m.Version), int64(m.ChangesetID), int64(m.Lat * 2), int64(m.Lon * 2), int64(m.Orientation)})
	}
	return out
}

// reference semantics, written independently of the implementation and of the Lean model
func c15Ref(isRel bool, t int64, cs []c15Child, us []c15Upd) (out []c15Child, pending []c15Upd, errIdx int) {
	out = append([]c15Child{}, cs...)
	errIdx = c15NoErr
	for _, u := range us {
		if u.ts > t {
			pending = append(pending, u)
			continue
		}
		if u.idx < 0 || u.idx >= len(out) {
			return out, us, u.idx
		}
		c := &out[u.idx]
		c.ver, c.cs, c.lat, c.lon = u.ver, u.cs, u.lat, u.lon
		if isRel && u.rev {
			c.orient = -c.orient
		}
	}
	return out, pending, c15NoErr
}

// c15NoErr: "no index error" (any int can be an update index, so -1 cannot be the sentinel)
const c15NoErr = -1 << 40

func c15EqChildren(a, b []c15Child) bool {
	if len(a) != len(b) {
		return false
	}
	for i := range a {
		if a[i] != b[i] {
			return false
		}
	}
	return true
}

func c15Class(op, out string) string {
	f := fields(op)
	if len(f) < 3 {
		return "trivial"
	}
	_, us, ok := c15Parse(f[3:])
	if f[1] == "compose" {
		_, us, ok = c15Parse(f[4:])
	}
	if !ok {
		return "trivial"
	}
	t, _ := strconv.ParseInt(f[2], 10, 64)
	if f[1] == "compose" {
		t, _ = strconv.ParseInt(f[3], 10, 64)
	}
	before, after := 0, 0
	for _, u := range us {
		if u.ts > t {
			after++
		} else {
			before++
		}
	}
	if strings.Contains(out, "err=") && !strings.Contains(out, "err=-") {
		return f[0] + "-" + f[1] + "-index-error"
	}
	if before > 0 && after > 0 {
		return f[0] + "-" + f[1] + "-mixed"
	}
	return "trivial-" + f[0] + "-" + f[1] + "-onesided"
}

func c15Exec(op string) (string, *Violation) {
	f := fields(op)
	if len(f) < 3 {
		return "bad-op", nil
	}
	isRel := f[0] == "rel"
	switch f[1] {
	case "apply":
		t, _ := strconv.ParseInt(f[2], 10, 64)
		cs, us, ok := c15Parse(f[3:])
		if !ok {
			return "bad-op", nil
		}
		wantC, wantP, wantErr := c15Ref(isRel, t, cs, us)
		var out string
		var gotC []c15Child
		var gotP osm.Updates
		var err error
		var viol *Violation
		if isRel {
			r := c15Rel(cs, us)
			err = r.ApplyUpdatesUpTo(c15Time(t))
			gotC, gotP = c15RelChildren(r), r.Updates
			out = c15ShowState(err, gotC, gotP)
		} else {
			w := c15Way(cs, us)
			orig := c15Way(cs, us)
			err = w.ApplyUpdatesUpTo(c15Time(t))
			gotC, gotP = c15WayChildren(w), w.Updates
			out = c15ShowState(err, gotC, gotP)
			var l1, l2 [][2]float64
			for _, p := range w.LineString() {
				l1 = append(l1, [2]float64{p[0], p[1]})
			}
			for _, p := range orig.LineStringAt(c15Time(t)) {
				l2 = append(l2, [2]float64{p[0], p[1]})
			}
			ls, la := c15PtsStr(l1), c15PtsStr(l2)
			out += " L " + ls + " A " + la
			// geometry-at-time = geometry of the updated copy, for fully annotated ways with annotated in-range updates
			full := wantErr == c15NoErr
			for _, c := range cs {
				if c.ver == 0 {
					full = false
				}
			}
			for _, u := range us {
				if u.ver == 0 || u.idx >= len(cs) {
					full = false
				}
			}
			if full && ls != la {
				// classify: is this exactly the early exit at the first late update?
				lateSeen, early := false, false
				for _, u := range us {
					if u.ts > t {
						lateSeen = true
					} else if lateSeen {
						early = true
					}
				}
				sig := "linestringat-differs-from-apply"
				if early {
					// recompute with "skip late updates" semantics
					pts := make([][2]int64, len(cs))
					for i, c := range cs {
						pts[i] = [2]int64{c.lon, c.lat}
					}
					for _, u := range us {
						if u.ts <= t {
							pts[u.idx] = [2]int64{u.lon, u.lat}
						}
					}
					var p []string
					for _, x := range pts {
						p = append(p, fmt.Sprintf("%d,%d", x[0], x[1]))
					}
					if strings.Join(p, " ") == ls {
						sig = "linestringat-early-exit"
					}
				}
				viol = &Violation{Signature: sig, Text: fmt.Sprintf("LineStringAt(t=%d) = [%s] but ApplyUpdatesUpTo(t)+LineString = [%s] (updates in stored order %v)", t, la, ls, us)}
			}
		}
		if viol == nil {
			switch {
			case wantErr != c15NoErr:
				oe, ok := err.(*osm.UpdateIndexOutOfRangeError)
				if !ok || oe.Index != wantErr {
					viol = &Violation{Signature: "index-error-missing", Text: fmt.Sprintf("expected UpdateIndexOutOfRangeError{%d}, got %v", wantErr, err)}
				} else if len(gotC) != len(cs) {
					viol = &Violation{Signature: "child-list-length-changed", Text: "child list length changed on error"}
				}
			case err != nil:
				viol = &Violation{Signature: "unexpected-error", Text: fmt.Sprintf("unexpected error %v", err)}
			case !c15EqChildren(gotC, wantC):
				viol = &Violation{Signature: "apply-not-exact", Text: fmt.Sprintf("children after apply = %v, expected %v", gotC, wantC)}
			default:
				if len(gotP) != len(wantP) {
					viol = &Violation{Signature: "pending-wrong", Text: fmt.Sprintf("%d pending updates, expected %d", len(gotP), len(wantP))}
				} else {
					for i := range gotP {
						if gotP[i].Index != wantP[i].idx || int64(gotP[i].Version) != wantP[i].ver || c15Stamp(gotP[i].Timestamp) != wantP[i].ts {
							viol = &Violation{Signature: "pending-order", Text: fmt.Sprintf("pending[%d] = %v expected %v", i, gotP[i], wantP[i])}
							break
						}
					}
				}
			}
		}
		return out, viol
	case "compose":
		t1, _ := strconv.ParseInt(f[2], 10, 64)
		t2, _ := strconv.ParseInt(f[3], 10, 64)
		cs, us, ok := c15Parse(f[4:])
		if !ok {
			return "bad-op", nil
		}
		var out string
		var final []c15Child
		var e1, e2 error
		if isRel {
			r := c15Rel(cs, us)
			e1 = r.ApplyUpdatesUpTo(c15Time(t1))
			if e1 != nil {
				return "first " + c15ShowState(e1, c15RelChildren(r), r.Updates), nil
			}
			e2 = r.ApplyUpdatesUpTo(c15Time(t2))
			final = c15RelChildren(r)
			out = c15ShowState(e2, final, r.Updates)
		} else {
			w := c15Way(cs, us)
			e1 = w.ApplyUpdatesUpTo(c15Time(t1))
			if e1 != nil {
				return "first " + c15ShowState(e1, c15WayChildren(w), w.Updates), nil
			}
			e2 = w.ApplyUpdatesUpTo(c15Time(t2))
			final = c15WayChildren(w)
			out = c15ShowState(e2, final, w.Updates)
		}
		// composition claim: per-child time-ordered lists, t1 <= t2, in range
		ordered := t1 <= t2
		last := map[int]int64{}
		for _, u := range us {
			if u.idx >= len(cs) {
				ordered = false
			}
			if p, ok := last[u.idx]; ok && p > u.ts {
				ordered = false
			}
			last[u.idx] = u.ts
		}
		if ordered {
			want, _, werr := c15Ref(isRel, t2, cs, us)
			if werr == c15NoErr && (e2 != nil || !c15EqChildren(final, want)) {
				return out, &Violation{Signature: "compose-differs", Text: fmt.Sprintf("apply(t1=%d) then apply(t2=%d) gives %v (err %v), direct apply(t2) gives %v", t1, t2, final, e2, want)}
			}
		}
		return out, nil
	}
	return "bad-op", nil
}

func orbOrient(o int64) orb.Orientation { return orb.Orientation(o) }

func c15Gen(r *Rng, tier string, emit func(string)) {
	n := 20000
	if tier == "thorough" {
		n = 400000
	}
	for i := 0; i < n; i++ {
		kind := "way"
		if r.Chance(35) {
			kind = "rel"
		}
		nc := r.Intn(7)
		var b strings.Builder
		annotated := r.Chance(80)
		var childs []string
		for j := 0; j < nc; j++ {
			ver, la, lo := int64(1+r.Intn(5)), int64(1+r.Intn(200)), int64(1+r.Intn(200))
			if !annotated && r.Chance(50) {
				ver, la, lo = 0, 0, 0
			}
			or := int64(0)
			if kind == "rel" {
				or = int64(r.Intn(3) - 1)
			}
			childs = append(childs, fmt.Sprintf("%d:%d:%d:%d:%d:%d", 100+j, ver, 10+r.Intn(5), la, lo, or))
		}
		nu := r.Intn(11)
		base := int64(1000)
		if r.Chance(8) {
			// stamps beyond what fits a count of nanoseconds in an int64 (after 2262-04-11): time.Time compares
			// them exactly, UnixNano wraps
			base = 40000000000 + int64(r.Intn(1000))
		}
		type up struct {
			idx         int
			ver, ts, cs int64
			la, lo      int64
			rev         int
		}
		var ups []up
		for j := 0; j < nu; j++ {
			idx := 0
			if nc > 0 {
				idx = r.Intn(nc)
			}
			if r.Chance(4) {
				idx = nc + r.Intn(3)
			}
			if r.Chance(2) {
				idx = -1 - r.Intn(3) // Update.Index is a signed int read verbatim from XML/JSON
			}
			ver := int64(2 + r.Intn(6))
			if r.Chance(3) {
				ver = 0
			}
			rev := 0
			if kind == "rel" && r.Chance(30) {
				rev = 1
			}
			ups = append(ups, up{idx, ver, base + int64(r.Intn(40)), 20 + int64(r.Intn(5)), int64(1 + r.Intn(200)), int64(1 + r.Intn(200)), rev})
		}
		// order: index-sorted with per-child time order (as annotation produces), time-sorted, or shuffled
		order := r.Intn(3)
		switch order {
		case 0:
			for a := 1; a < len(ups); a++ {
				for c := a; c > 0 && (ups[c].idx < ups[c-1].idx || (ups[c].idx == ups[c-1].idx && ups[c].ts < ups[c-1].ts)); c-- {
					ups[c], ups[c-1] = ups[c-1], ups[c]
				}
			}
		case 1:
			for a := 1; a < len(ups); a++ {
				for c := a; c > 0 && ups[c].ts < ups[c-1].ts; c-- {
					ups[c], ups[c-1] = ups[c-1], ups[c]
				}
			}
		}
		var utoks []string
		for _, u := range ups {
			utoks = append(utoks, fmt.Sprintf("%d:%d:%d:%d:%d:%d:%d", u.idx, u.ver, u.ts, u.cs, u.la, u.lo, u.rev))
		}
		pickT := func() int64 {
			if r.Chance(6) {
				// sentinel cut-offs callers use for "everything" / "nothing": 9999-12-31T23:59:59Z, year 3000,
				// the zero time.Time, year 1600 - all outside the int64-nanosecond range
				return []int64{253402300799 << 2, 32503680000 << 2, -62135596800 << 2, -11676096000 << 2}[r.Intn(4)]
			}
			switch r.Intn(5) {
			case 0:
				return base - 1
			case 1:
				return base + 41
			case 2:
				if len(ups) > 0 {
					return ups[r.Intn(len(ups))].ts // exactly on a stamp
				}
			}
			return base + int64(r.Intn(41))
		}
		if r.Chance(70) {
			fmt.Fprintf(&b, "%s apply %d", kind, pickT())
		} else {
			t1, t2 := pickT(), pickT()
			if t1 > t2 && r.Chance(90) {
				t1, t2 = t2, t1
			}
			fmt.Fprintf(&b, "%s compose %d %d", kind, t1, t2)
		}
		b.WriteString(" N " + strings.Join(childs, " ") + " U " + strings.Join(utoks, " "))
		emit(strings.Join(strings.Fields(b.String()), " "))
	}
}
