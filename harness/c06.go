package main

import (
	"bytes"
	"context"
	"encoding/binary"
	"fmt"
	"os"
	"os/exec"
	"strconv"
	"strings"
	"time"

	"github.com/paulmach/osm"
	"github.com/paulmach/osm/osmpbf"
)

// C06 — truncated or damaged input ends in an error after a correct prefix. Ops:
//
//	cut <procs> <offset> S=<sizes> FILE…      the stream cut after <offset> bytes
//	dmg <procs> <class> <pos> FILE…           frame <pos> (0 = header frame, k = k-th data block) written damaged
func init() {
	register(&Prop{
		ID: "C06",
		Rule: "generated valid PBF files (1..4 blocks) cut at EVERY byte offset from 0 to the full length; and every damage class (oversized BlobHeader length, negative and oversized datasize, raw_size too large / too small / zero, corrupt zlib data, lzma-only blob, blob without data, unknown block type, unsupported required feature, dense group without ids / lat / lon, string reference beyond the table in dense / way / relation, info column shorter than ids, way lat column longer than refs, relation types shorter than roles, plain (non-dense) Node group) applied at every block position, decoder counts 1..4; every damaged scan runs in an isolated child process so that a crash is observed as the result of that one case; " +
			"non-trivial = every op; distinct = distinct op line",
		Gen:       c06Gen,
		Exec:      c06Exec,
		ModelSkip: func(op string) bool { return strings.HasPrefix(op, "ztrail ") },
		Class: func(op, out string) string {
			f := fields(op)
			if f[0] == "dmg" {
				return "dmg-" + f[2]
			}
			return f[0]
		},
	})
}

var c06Classes = []string{"hdrsize-oversized", "datasize-negative", "datasize-oversized", "rawsize-wrong", "rawsize-small", "rawsize-zero", "rawsize-huge", "zlib-corrupt", "encoding-lzma",
	"encoding-none", "type-unknown", "feature-unsupported", "dense-no-ids", "dense-no-lat", "dense-no-lon", "string-oob-dense", "string-oob-way",
	"string-oob-rel", "column-short", "way-lat-longer", "way-lat-short", "rel-types-short", "rel-roles-short", "rel-type-unknown", "plain-nodes", "tagkey-oob-dense", "stringtable-absent"}

// c06Damaged serialises the file with frame pos damaged. ok=false when the class does not apply to that frame.
func c06Damaged(pf *PFile, class string, pos int) ([]byte, bool) {
	frames := pf.Frames()
	hasHdr := pf.Header != nil
	if pos < 0 || pos >= len(frames) {
		return nil, false
	}
	isHeader := hasHdr && pos == 0
	bi := pos
	if hasHdr {
		bi = pos - 1
	}
	payload := func() ([]byte, bool, string) {
		if isHeader {
			return pf.Header.headerBlock(), false, "OSMHeader"
		}
		return pf.Blocks[bi].primitiveBlock(), pf.Blocks[bi].Zlib, "OSMData"
	}
	reframe := func(o frameOpt, forceZlib bool) {
		p, z, t := payload()
		frames[pos] = frame(t, p, z || forceZlib, o)
	}
	// message-level damage: work on a copy of the block
	blockDamage := func(f func(b *PBlock) bool) bool {
		if isHeader {
			return false
		}
		cp := pf.Blocks[bi]
		cp.Groups = append([]PGroup{}, cp.Groups...)
		if !f(&cp) {
			return false
		}
		frames[pos] = frame("OSMData", cp.primitiveBlock(), cp.Zlib, frameOpt{})
		return true
	}
	firstDense := func(b *PBlock, minN int) *PDense {
		for i := range b.Groups {
			if d := b.Groups[i].Dense; d != nil && len(d.IDs) >= minN {
				cp := *d
				b.Groups[i].Dense = &cp
				return &cp
			}
		}
		return nil
	}
	firstWay := func(b *PBlock) *PWay {
		for i := range b.Groups {
			if len(b.Groups[i].Ways) > 0 {
				ws := append([]PWay{}, b.Groups[i].Ways...)
				b.Groups[i].Ways = ws
				return &ws[0]
			}
		}
		return nil
	}
	firstRel := func(b *PBlock) *PRel {
		for i := range b.Groups {
			if len(b.Groups[i].Rels) > 0 {
				rs := append([]PRel{}, b.Groups[i].Rels...)
				b.Groups[i].Rels = rs
				return &rs[0]
			}
		}
		return nil
	}
	switch class {
	case "hdrsize-oversized":
		fr := frames[pos]
		b := append([]byte{}, fr.Bytes...)
		binary.BigEndian.PutUint32(b, 64*1024+uint32(pos))
		frames[pos].Bytes = b
	case "datasize-negative":
		n := int64(-1 - pos)
		reframe(frameOpt{datasize: &n}, false)
	case "datasize-oversized":
		n := int64(32*1024*1024 + pos)
		reframe(frameOpt{datasize: &n}, false)
	case "rawsize-wrong":
		reframe(frameOpt{rawSizeDelta: 1 + pos}, true)
	case "rawsize-small":
		p, _, _ := payload()
		if len(p) < 2+pos {
			return nil, false
		}
		reframe(frameOpt{rawSizeDelta: -(1 + pos)}, true)
	case "rawsize-zero":
		p, _, _ := payload()
		if len(p) == 0 {
			return nil, false
		}
		reframe(frameOpt{rawSizeDelta: -len(p)}, true)
	case "rawsize-huge":
		// a declared uncompressed size near the top of int32 (the format's limit is 32 MiB)
		p, _, _ := payload()
		reframe(frameOpt{rawSizeDelta: 2000000000 + pos - len(p)}, true)
	case "zlib-corrupt":
		reframe(frameOpt{corruptZlib: true}, true)
	case "encoding-lzma":
		reframe(frameOpt{encoding: 1}, false)
	case "encoding-none":
		reframe(frameOpt{encoding: 2}, false)
	case "type-unknown":
		reframe(frameOpt{typ: "OSMFoo"}, false)
	case "feature-unsupported":
		if !isHeader {
			return nil, false
		}
		h := *pf.Header
		h.Req = append(append([]string{}, h.Req...), "FancyNewEncoding")
		frames[pos] = frame("OSMHeader", h.headerBlock(), false, frameOpt{})
	case "dense-no-ids", "dense-no-lat", "dense-no-lon":
		if !blockDamage(func(b *PBlock) bool {
			d := firstDense(b, 1)
			if d == nil {
				return false
			}
			switch class {
			case "dense-no-ids":
				d.IDs = nil
			case "dense-no-lat":
				d.Lat = nil
			default:
				d.Lon = nil
			}
			return true
		}) {
			return nil, false
		}
	case "string-oob-dense":
		if !blockDamage(func(b *PBlock) bool {
			d := firstDense(b, 1)
			if d == nil || !d.HasInfo || d.SID == nil {
				return false
			}
			d.SID = append([]int64{}, d.SID...)
			d.SID[len(d.SID)-1] += int64(len(b.Strings)) + 3
			return true
		}) {
			return nil, false
		}
	case "stringtable-absent":
		// the block leaves out its string table although it refers to strings: every reference is out of range.
		// (A decoder that keeps the table of the block it decoded before would resolve them there.)
		if !blockDamage(func(b *PBlock) bool {
			refs := false
			for _, g := range b.Groups {
				if d := g.Dense; d != nil && len(d.IDs) > 0 && d.HasInfo && len(d.SID) > 0 {
					refs = true
				}
				for _, w := range g.Ways {
					if len(w.Keys) > 0 {
						refs = true
					}
				}
				for _, r := range g.Rels {
					if len(r.Roles) > 0 || len(r.Keys) > 0 {
						refs = true
					}
				}
			}
			b.NoST = true
			return refs
		}) {
			return nil, false
		}
	case "tagkey-oob-dense":
		if !blockDamage(func(b *PBlock) bool {
			d := firstDense(b, 1)
			if d == nil || len(d.KV) < 3 {
				return false
			}
			d.KV = append([]int64{}, d.KV...)
			for i, v := range d.KV {
				if v != 0 {
					d.KV[i] = int64(len(b.Strings)) + 7
					return true
				}
			}
			return false
		}) {
			return nil, false
		}
	case "string-oob-way":
		if !blockDamage(func(b *PBlock) bool {
			w := firstWay(b)
			if w == nil {
				return false
			}
			w.Keys = append(append([]int64{}, w.Keys...), int64(len(b.Strings))+2)
			w.Vals = append(append([]int64{}, w.Vals...), 0)
			return true
		}) {
			return nil, false
		}
	case "string-oob-rel":
		if !blockDamage(func(b *PBlock) bool {
			r := firstRel(b)
			if r == nil {
				return false
			}
			r.Roles = append(append([]int64{}, r.Roles...), int64(len(b.Strings))+5)
			r.MemIDs = append(append([]int64{}, r.MemIDs...), 1)
			r.Types = append(append([]int64{}, r.Types...), 0)
			return true
		}) {
			return nil, false
		}
	case "column-short":
		if !blockDamage(func(b *PBlock) bool {
			d := firstDense(b, 2)
			if d == nil || !d.HasInfo || d.Ver == nil {
				return false
			}
			d.Ver = d.Ver[:len(d.Ver)-1]
			return true
		}) {
			return nil, false
		}
	case "way-lat-longer":
		if !blockDamage(func(b *PBlock) bool {
			w := firstWay(b)
			if w == nil || len(w.Refs) == 0 {
				return false // with no refs the extra coordinates are not a reference out of range
			}
			n := len(w.Refs)
			w.Lat = make([]int64, n+2)
			w.Lon = make([]int64, n+2)
			if w.Refs == nil {
				w.Refs = []int64{}
			}
			return true
		}) {
			return nil, false
		}
	case "way-lat-short":
		// a latitude column shorter than the refs column: the missing coordinates would be invented zeros
		if !blockDamage(func(b *PBlock) bool {
			w := firstWay(b)
			if w == nil || len(w.Refs) < 2 {
				return false
			}
			n := len(w.Refs)
			w.Lat = make([]int64, n-1)
			w.Lon = make([]int64, n)
			for i := range w.Lon {
				w.Lon[i] = 7
			}
			for i := range w.Lat {
				w.Lat[i] = 5
			}
			return true
		}) {
			return nil, false
		}
	case "rel-roles-short":
		// fewer roles than members: the remaining members would be invented empty ones
		if !blockDamage(func(b *PBlock) bool {
			r := firstRel(b)
			if r == nil || len(r.Roles) < 2 {
				return false
			}
			r.Roles = r.Roles[:len(r.Roles)-1]
			return true
		}) {
			return nil, false
		}
	case "rel-type-unknown":
		if !blockDamage(func(b *PBlock) bool {
			r := firstRel(b)
			if r == nil || len(r.Types) == 0 {
				return false
			}
			r.Types = append([]int64{}, r.Types...)
			r.Types[len(r.Types)-1] = 3 // not NODE, WAY or RELATION
			return true
		}) {
			return nil, false
		}
	case "rel-types-short":
		if !blockDamage(func(b *PBlock) bool {
			r := firstRel(b)
			if r == nil || len(r.Types) == 0 {
				return false
			}
			r.Types = r.Types[:len(r.Types)-1]
			return true
		}) {
			return nil, false
		}
	case "plain-nodes":
		if isHeader {
			return nil, false
		}
		// a primitive group holding one plain Node (field 1): id=1 lat=0 lon=0
		var n pbw
		n.SInt(1, 1)
		n.SInt(8, 0)
		n.SInt(9, 0)
		var g pbw
		g.Bytes(1, n.b)
		var p pbw
		p.b = append(p.b, pf.Blocks[bi].primitiveBlock()...)
		p.Bytes(2, g.b)
		frames[pos] = frame("OSMData", p.b, pf.Blocks[bi].Zlib, frameOpt{})
	default:
		return nil, false
	}
	return joinFrames(frames), true
}

// c06Scan scans with a watchdog: a scan that does not finish is reported as a hang.
func c06Scan(data []byte, procs int) (hdrOK bool, objs []osm.Object, err error, hung bool) {
	type res struct {
		h    *osmpbf.Header
		objs []osm.Object
		err  error
	}
	ch := make(chan res, 1)
	go func() {
		h, o, e := pbfScan(data, scanOpts{procs: procs})
		ch <- res{h, o, e}
	}()
	select {
	case r := <-ch:
		return r.h != nil, r.objs, r.err, false
	case <-time.After(20 * time.Second):
		return false, nil, nil, true
	}
}

func c06Line(hdrOK bool, objs []osm.Object, err error) string {
	parts := []string{"hdr=none"}
	if hdrOK {
		parts[0] = "hdr=ok"
	}
	for _, o := range objs {
		parts = append(parts, pObject(o))
	}
	if err != nil {
		parts = append(parts, "end=err")
	} else {
		parts = append(parts, "end=ok")
	}
	return strings.Join(parts, " ")
}

func c06Exec(op string) (string, *Violation) {
	f := fields(op)
	switch f[0] {
	case "cut":
		procs, _ := strconv.Atoi(f[1])
		off, _ := strconv.Atoi(f[2])
		pf, err := ParsePFile(f[4:])
		if err != nil {
			return "bad-op", nil
		}
		frames := pf.Frames()
		if c09Sizes(frames) != f[3] {
			return "bad-op-sizes", nil
		}
		data := joinFrames(frames)
		if off > len(data) {
			return "bad-op", nil
		}
		h, objs, serr, hung := c06Scan(data[:off], procs)
		if hung {
			return "HANG", &Violation{Signature: "pbf-hang-cut", Text: fmt.Sprintf("the scan of the stream cut at byte %d of %d does not finish", off, len(data))}
		}
		line := c06Line(h, objs, serr)
		// direct oracle: success only on a block boundary
		boundary := off == 0
		pos := 0
		for _, fr := range frames {
			pos += len(fr.Bytes)
			if pos == off {
				boundary = true
			}
		}
		if serr == nil && !boundary {
			where := "inside a block"
			p := 0
			for _, fr := range frames {
				if off == p+4 {
					where = "right after a block's 4-byte length prefix"
				} else if off == p+4+fr.HeaderLen {
					where = "right after a block's BlobHeader"
				}
				p += len(fr.Bytes)
			}
			sig := "pbf-truncation-silent-success"
			if where != "inside a block" {
				sig += "-" + strings.ReplaceAll(strings.ReplaceAll(where, "right after a block's ", "after-"), " ", "-")
			}
			return line, &Violation{Signature: sig, Text: fmt.Sprintf("the stream is cut at byte %d of %d (%s), not on a block boundary, and the scan reports success after %d objects", off, len(data), where, len(objs))}
		}
		return line, nil
	case "ztrail":
		// ztrail <procs>: a well-formed file whose second data block's zlib stream is followed by one byte. The data
		// is intact, so success and an error are both acceptable; a scan that does not end is not. Run in a child
		// process that is killed after a few seconds (the hang spins inside the inflate reader).
		if os.Getenv("VERIF_CHILD") == "" {
			exe, err := os.Executable()
			if err != nil {
				return "bad-op", nil
			}
			cmd := exec.Command(exe, append([]string{"child", "C06"}, fields(op)...)...)
			cmd.Env = append(os.Environ(), "VERIF_CHILD=1", "GOMEMLIMIT=2GiB")
			done := make(chan error, 1)
			if err := cmd.Start(); err != nil {
				return "bad-op", nil
			}
			go func() { done <- cmd.Wait() }()
			select {
			case <-done:
				return "ended", nil
			case <-time.After(8 * time.Second):
				_ = cmd.Process.Kill()
				return "HANG", &Violation{Signature: "pbf-hang-zlib-trailing-byte", Text: "the scan of a stream whose zlib data is followed by one extra byte does not end (child killed after 8s); Close does not return either"}
			}
		}
		{
			procs, _ := strconv.Atoi(f[1])
			pf := &PFile{Header: &PHeader{Req: []string{"OsmSchema-V0.6", "DenseNodes"}}}
			for b := 0; b < 3; b++ {
				pf.Blocks = append(pf.Blocks, PBlock{Zlib: true, Strings: []string{""}, Groups: []PGroup{{Dense: &PDense{IDs: []int64{int64(3*b + 1), 1, 1}, Lat: []int64{1, 1, 1}, Lon: []int64{5, 1, 1}}}}})
			}
			frames := pf.Frames()
			frames[2] = frame("OSMData", pf.Blocks[1].primitiveBlock(), true, frameOpt{trailingZlib: true})
			s := osmpbf.New(context.Background(), bytes.NewReader(joinFrames(frames)), procs)
			n := 0
			for s.Scan() {
				n++
			}
			_ = s.Close()
			return fmt.Sprintf("ended n=%d", n), nil
		}
	case "dmg":
		if os.Getenv("VERIF_CHILD") == "" {
			// isolate: a crash must be the result of this one case
			exe, err := os.Executable()
			if err != nil {
				return "bad-op", nil
			}
			cmd := exec.Command(exe, append([]string{"child", "C06"}, fields(op)...)...)
			cmd.Env = append(os.Environ(), "VERIF_CHILD=1", "GOMEMLIMIT=2GiB")
			var stdout, stderr bytes.Buffer
			cmd.Stdout, cmd.Stderr = &stdout, &stderr
			done := make(chan error, 1)
			if err := cmd.Start(); err != nil {
				return "bad-op", nil
			}
			go func() { done <- cmd.Wait() }()
			select {
			case err = <-done:
			case <-time.After(60 * time.Second):
				_ = cmd.Process.Kill()
				return "HANG", &Violation{Signature: "pbf-hang-" + f[2], Text: "the scan of the damaged stream does not finish (child killed after 60s)"}
			}
			lines := strings.Split(strings.TrimRight(stdout.String(), "\n"), "\n")
			if err != nil {
				tail := stderr.String()
				if len(tail) > 1500 {
					tail = tail[:1500]
				}
				return "CRASH", &Violation{Signature: "pbf-crash-" + f[2], Text: fmt.Sprintf("the process scanning a stream with damage %q at block %s died (%v): %s", f[2], f[3], err, tail)}
			}
			var v *Violation
			if len(lines) > 1 && strings.HasPrefix(lines[1], "#VIOLATION ") {
				p := strings.SplitN(strings.TrimPrefix(lines[1], "#VIOLATION "), ": ", 2)
				v = &Violation{Signature: p[0], Text: strings.Join(append(p[1:], lines[2:]...), "\n")}
			}
			return lines[0], v
		}
		procs, _ := strconv.Atoi(f[1])
		pos, _ := strconv.Atoi(f[3])
		pf, err := ParsePFile(f[4:])
		if err != nil {
			return "bad-op", nil
		}
		data, ok := c06Damaged(pf, f[2], pos)
		if !ok {
			return "not-applicable", nil
		}
		h, objs, serr, hung := c06Scan(data, procs)
		if hung {
			return "HANG", &Violation{Signature: "pbf-hang-" + f[2], Text: "the scan of the damaged stream does not finish"}
		}
		line := c06Line(h, objs, serr)
		if serr == nil {
			return line, &Violation{Signature: "pbf-damage-silent-success-" + f[2], Text: fmt.Sprintf("a stream with damage %q at block %d is scanned to the end without an error (%d objects)", f[2], pos, len(objs))}
		}
		return line, nil
	}
	return "bad-op", nil
}

func c06Gen(r *Rng, tier string, emit func(string)) {
	files := 5
	if tier == "thorough" {
		files = 60
	}
	for i := 0; i < files; i++ {
		pf := genPFile(r, 3, 3)
		for len(pf.Blocks) == 0 {
			pf = genPFile(r, 3, 3)
		}
		frames := pf.Frames()
		total := len(joinFrames(frames))
		toks, sizes := pf.Tokens(), c09Sizes(frames)
		procs := 1 + r.Intn(4)
		for off := 0; off <= total; off++ {
			emit(fmt.Sprintf("cut %d %d %s %s", procs, off, sizes, toks))
		}
	}
	dfiles := 6
	if tier == "thorough" {
		dfiles = 80
	}
	for i := 0; i < dfiles; i++ {
		// blocks that carry every element kind, so that every damage class applies somewhere
		pf := genPFile(r, 4, 4)
		for len(pf.Blocks) < 2 {
			pf = genPFile(r, 4, 4)
		}
		toks := pf.Tokens()
		for _, c := range c06Classes {
			for pos := 0; pos <= len(pf.Blocks); pos++ {
				if _, ok := c06Damaged(pf, c, pos); ok {
					emit(fmt.Sprintf("dmg %d %s %d %s", 1+r.Intn(4), c, pos, toks))
				}
			}
		}
	}
}
