package main

import (
	"encoding/xml"
	"fmt"
	"reflect"
	"strconv"
	"strings"
	"time"

	"github.com/paulmach/orb"
	"github.com/paulmach/osm"
)

// ---- random values of the library's types (shared by C03, C04, C05) ----

var xgStrings = []string{"", "a", "alice", "Bob & Carol", "<tag>", "quote\"s", "it's", "näme", "日本語", "a  b", " lead", "trail ", "tab\there", "line\nbreak", "&amp;", "]]>", "emoji 🚀", "x=1;y=2"}
var xgKeys = []string{"name", "highway", "building", "source", "addr:street", "ref", "note", "k&v", "ключ", "a b"}

func xgStr(r *Rng) string { return xgStrings[r.Intn(len(xgStrings))] }

func xgTime(r *Rng) time.Time {
	if r.Chance(3) {
		// times a nanosecond count in an int64 cannot hold (before 1678, after 2262), before the epoch, and the last
		// second RFC 3339 can write
		return []time.Time{
			time.Date(9999, 12, 31, 23, 59, 59, 0, time.UTC), time.Date(2300, 1, 2, 3, 4, 5, 0, time.UTC),
			time.Date(1969, 12, 31, 23, 59, 59, 0, time.UTC), time.Date(1600, 2, 29, 12, 0, 0, 0, time.UTC),
			time.Date(1, 1, 1, 0, 0, 1, 0, time.UTC),
		}[r.Intn(5)]
	}
	ns := int64(0)
	switch r.Intn(4) {
	case 0:
		ns = int64(r.Intn(1000)) * 1000000
	case 1:
		ns = int64(r.Intn(1000000000))
	}
	return time.Unix(1100000000+r.I64n(500000000), ns).UTC()
}

func xgFloat(r *Rng) float64 {
	switch r.Intn(5) {
	case 0:
		return float64(r.Intn(360)-180) + float64(r.Intn(10000000))/1e7
	case 1:
		return float64(r.Intn(180) - 90)
	case 2:
		return -float64(1+r.Intn(1000)) / 7 // never -0: the text-level models cannot see that -0 == 0
	case 3:
		return 1e-7 * float64(1+r.Intn(1000))
	}
	return float64(r.Intn(100000)) / 1000
}

func xgTags(r *Rng) osm.Tags {
	n := r.Intn(4)
	if n == 0 {
		return nil
	}
	var ts osm.Tags
	p := r.Perm(len(xgKeys))
	for i := 0; i < n; i++ {
		ts = append(ts, osm.Tag{Key: xgKeys[p[i]], Value: xgStr(r)})
	}
	return ts
}

func xgCommitted(r *Rng) *time.Time {
	if r.Chance(60) {
		return nil
	}
	t := xgTime(r)
	return &t
}

func xgUpdates(r *Rng) osm.Updates {
	if r.Chance(60) {
		return nil
	}
	var us osm.Updates
	for i := r.Intn(3) + 1; i > 0; i-- {
		u := osm.Update{Index: r.Intn(5), Version: 1 + r.Intn(9), Timestamp: xgTime(r)}
		if r.Bool() {
			u.ChangesetID = osm.ChangesetID(1 + r.Intn(1000))
		}
		if r.Bool() {
			u.Lat, u.Lon = xgFloat(r), xgFloat(r)
		}
		u.Reverse = r.Chance(20)
		us = append(us, u)
	}
	return us
}

func xgBounds(r *Rng) *osm.Bounds {
	if r.Chance(12) {
		return &osm.Bounds{} // present, all coordinates zero
	}
	return &osm.Bounds{MinLat: xgFloat(r), MaxLat: xgFloat(r), MinLon: xgFloat(r), MaxLon: xgFloat(r)}
}

func xgNode(r *Rng) *osm.Node {
	n := &osm.Node{ID: osm.NodeID(xgRef(r, 40)), Lat: xgFloat(r), Lon: xgFloat(r), Visible: r.Chance(80)}
	if r.Chance(80) {
		n.User, n.UserID = xgStr(r), osm.UserID(r.Intn(100000))
		n.Version, n.ChangesetID, n.Timestamp = 1+r.Intn(50), osm.ChangesetID(r.Intn(1000000)), xgTime(r)
	}
	n.Tags = xgTags(r)
	n.Committed = xgCommitted(r)
	return n
}

// xgRef is a node reference: usually of today's size, sometimes beyond 2^53 (where a float64 no longer holds every
// integer) and up to the top of int64 - ids are 64-bit integers in every OSM format.
func xgRef(r *Rng, bits uint) int64 {
	switch r.Intn(20) {
	case 0:
		return 1<<53 + 1 + 2*r.I64n(1<<20)
	case 1:
		return 1<<63 - 1 - r.I64n(1<<20)
	}
	return 1 + r.I64n(1<<bits)
}

func xgWayNodes(r *Rng, annotated bool) osm.WayNodes {
	var ns osm.WayNodes
	for i := r.Intn(5); i > 0; i-- {
		wn := osm.WayNode{ID: osm.NodeID(xgRef(r, 33))}
		if annotated {
			wn.Version, wn.ChangesetID, wn.Lat, wn.Lon = 1+r.Intn(9), osm.ChangesetID(1+r.Intn(999)), xgFloat(r), xgFloat(r)
		}
		ns = append(ns, wn)
	}
	return ns
}

func xgWay(r *Rng) *osm.Way {
	w := &osm.Way{ID: osm.WayID(1 + r.I64n(1<<40)), Visible: r.Chance(80)}
	if r.Chance(80) {
		w.User, w.UserID = xgStr(r), osm.UserID(r.Intn(100000))
		w.Version, w.ChangesetID, w.Timestamp = 1+r.Intn(50), osm.ChangesetID(r.Intn(1000000)), xgTime(r)
	}
	w.Nodes = xgWayNodes(r, r.Chance(40))
	w.Tags = xgTags(r)
	w.Committed = xgCommitted(r)
	w.Updates = xgUpdates(r)
	if r.Chance(25) {
		w.Bounds = xgBounds(r)
	}
	return w
}

func xgRelation(r *Rng) *osm.Relation {
	rel := &osm.Relation{ID: osm.RelationID(1 + r.I64n(1<<40)), Visible: r.Chance(80)}
	if r.Chance(80) {
		rel.User, rel.UserID = xgStr(r), osm.UserID(r.Intn(100000))
		rel.Version, rel.ChangesetID, rel.Timestamp = 1+r.Intn(50), osm.ChangesetID(r.Intn(1000000)), xgTime(r)
	}
	rel.Tags = xgTags(r)
	for i := r.Intn(4); i > 0; i-- {
		m := osm.Member{Type: []osm.Type{osm.TypeNode, osm.TypeWay, osm.TypeRelation}[r.Intn(3)], Ref: xgRef(r, 33), Role: []string{"", "outer", "inner", "stop & go"}[r.Intn(4)]}
		if r.Chance(40) {
			m.Version, m.ChangesetID, m.Lat, m.Lon = 1+r.Intn(9), osm.ChangesetID(1+r.Intn(999)), xgFloat(r), xgFloat(r)
		}
		if m.Type == osm.TypeWay && r.Chance(40) {
			m.Orientation = []orb.Orientation{orb.CW, orb.CCW}[r.Intn(2)]
		}
		if m.Type == osm.TypeWay && r.Chance(30) {
			m.Nodes = xgWayNodes(r, true)
		}
		rel.Members = append(rel.Members, m)
	}
	rel.Committed = xgCommitted(r)
	rel.Updates = xgUpdates(r)
	if r.Chance(25) {
		rel.Bounds = xgBounds(r)
	}
	return rel
}

func xgChangeset(r *Rng) *osm.Changeset {
	c := &osm.Changeset{ID: osm.ChangesetID(1 + r.Intn(1<<30)), User: xgStr(r), UserID: osm.UserID(r.Intn(100000)), CreatedAt: xgTime(r), Open: r.Bool()}
	if !c.Open {
		c.ClosedAt = xgTime(r)
	}
	if r.Bool() {
		c.ChangesCount = r.Intn(500)
		c.MinLat, c.MaxLat, c.MinLon, c.MaxLon = xgFloat(r), xgFloat(r), xgFloat(r), xgFloat(r)
	}
	if r.Bool() {
		c.CommentsCount = r.Intn(5)
	}
	c.Tags = xgTags(r)
	if r.Chance(40) {
		d := &osm.ChangesetDiscussion{}
		for i := 1 + r.Intn(3); i > 0; i-- {
			d.Comments = append(d.Comments, &osm.ChangesetComment{User: xgStr(r), UserID: osm.UserID(r.Intn(9999)), Timestamp: xgTime(r), Text: strings.TrimSpace(xgStr(r))})
		}
		c.Discussion = d
	}
	return c
}

func xgNoteDate(r *Rng) osm.Date {
	return osm.Date{Time: time.Unix(1300000000+r.I64n(200000000), 0).UTC()}
}

func xgNote(r *Rng) *osm.Note {
	n := &osm.Note{ID: osm.NoteID(1 + r.Intn(1<<30)), Lat: xgFloat(r), Lon: xgFloat(r), DateCreated: xgNoteDate(r), Status: []osm.NoteStatus{osm.NoteOpen, osm.NoteClosed}[r.Intn(2)]}
	if r.Bool() {
		n.URL, n.CommentURL, n.CloseURL = "https://api.osm.test/notes/1?x=1&y=2", "https://api.osm.test/notes/1/comment", "https://api.osm.test/notes/1/close"
	}
	if n.Status == osm.NoteClosed {
		n.DateClosed = xgNoteDate(r)
		n.ReopenURL = "https://api.osm.test/notes/1/reopen"
	}
	for i := r.Intn(3); i > 0; i-- {
		c := &osm.NoteComment{Date: xgNoteDate(r), Action: []osm.NoteCommentAction{osm.NoteCommentOpened, osm.NoteCommentComment, osm.NoteCommentClosed}[r.Intn(3)], Text: strings.TrimSpace(xgStr(r)), HTML: "<p>" + strings.TrimSpace(xgStr(r)) + "</p>"}
		if r.Bool() {
			c.UserID, c.User, c.UserURL = osm.UserID(1+r.Intn(9999)), strings.TrimSpace(xgStr(r)), "https://osm.test/user/x"
		}
		n.Comments = append(n.Comments, c)
	}
	return n
}

func xgUser(r *Rng) *osm.User {
	u := &osm.User{ID: osm.UserID(1 + r.Intn(1<<30)), Name: xgStr(r), Description: strings.TrimSpace(xgStr(r)), CreatedAt: xgTime(r)}
	u.Img.Href = "https://img.test/a.png?s=1&t=2"
	u.Changesets.Count, u.Traces.Count = r.Intn(1000), r.Intn(100)
	if r.Bool() {
		u.Home.Lat, u.Home.Lon, u.Home.Zoom = xgFloat(r), xgFloat(r), r.Intn(19)
	}
	for i := r.Intn(3); i > 0; i-- {
		u.Languages = append(u.Languages, []string{"en", "de-DE", "fr", "pt-BR"}[r.Intn(4)])
	}
	u.Blocks.Received.Count, u.Blocks.Received.Active = r.Intn(3), r.Intn(2)
	u.Messages.Received.Count, u.Messages.Received.Unread, u.Messages.Sent.Count = r.Intn(30), r.Intn(5), r.Intn(30)
	return u
}

func xgOSM(r *Rng, withBounds, elementsOnly bool) *osm.OSM {
	o := &osm.OSM{}
	if withBounds {
		o.Bounds = xgBounds(r)
	}
	for i := r.Intn(3); i > 0; i-- {
		o.Nodes = append(o.Nodes, xgNode(r))
	}
	for i := r.Intn(3); i > 0; i-- {
		o.Ways = append(o.Ways, xgWay(r))
	}
	for i := r.Intn(3); i > 0; i-- {
		o.Relations = append(o.Relations, xgRelation(r))
	}
	if !elementsOnly {
		for i := r.Intn(2); i > 0; i-- {
			o.Changesets = append(o.Changesets, xgChangeset(r))
		}
		for i := r.Intn(2); i > 0; i-- {
			o.Notes = append(o.Notes, xgNote(r))
		}
		for i := r.Intn(2); i > 0; i-- {
			o.Users = append(o.Users, xgUser(r))
		}
	}
	return o
}

func xgTop(r *Rng, o *osm.OSM) {
	if r.Chance(70) {
		o.Version, o.Generator = "0.6", "gen <1>"
	}
	if r.Chance(40) {
		o.Copyright, o.Attribution, o.License = osm.Copyright, osm.Attribution, osm.License
	}
}

func xgChange(r *Rng) *osm.Change {
	c := &osm.Change{}
	if r.Chance(70) {
		c.Version, c.Generator = "0.6", "osmosis"
	}
	if r.Chance(70) {
		c.Create = xgOSM(r, r.Chance(30), true)
	}
	if r.Chance(70) {
		c.Modify = xgOSM(r, r.Chance(30), true)
	}
	if r.Chance(70) {
		c.Delete = xgOSM(r, r.Chance(30), true)
	}
	return c
}

func xgDiff(r *Rng) *osm.Diff {
	d := &osm.Diff{}
	one := func() *osm.OSM {
		switch r.Intn(3) {
		case 0:
			return &osm.OSM{Nodes: osm.Nodes{xgNode(r)}}
		case 1:
			return &osm.OSM{Ways: osm.Ways{xgWay(r)}}
		}
		return &osm.OSM{Relations: osm.Relations{xgRelation(r)}}
	}
	for i := r.Intn(4); i > 0; i-- {
		var a osm.Action
		switch r.Intn(3) {
		case 0:
			a = osm.Action{Type: osm.ActionCreate, OSM: one()}
		case 1:
			a = osm.Action{Type: osm.ActionModify, Old: one(), New: one()}
		default:
			a = osm.Action{Type: osm.ActionDelete, Old: one(), New: one()}
		}
		// the three parts of an action are optional fields of the value, whatever its type says: any combination
		// of the element held directly, the old block and the new block is a value that has to come back
		if r.Chance(25) {
			a.OSM, a.Old, a.New = nil, nil, nil
			if r.Bool() {
				a.OSM = one()
			}
			if r.Bool() {
				a.Old = one()
			}
			if r.Bool() {
				a.New = one()
			}
		}
		d.Actions = append(d.Actions, a)
	}
	return d
}

// xgNormalize brings two values into comparable form: empty slices ≡ nil, times in UTC, xml.Name fields
// cleared, an empty changeset discussion ≡ none.
func xgNormalize(v reflect.Value) {
	switch v.Kind() {
	case reflect.Ptr:
		if v.IsNil() {
			return
		}
		if d, ok := v.Interface().(*osm.ChangesetDiscussion); ok && len(d.Comments) == 0 && v.CanSet() {
			v.Set(reflect.Zero(v.Type()))
			return
		}
		xgNormalize(v.Elem())
	case reflect.Struct:
		if t, ok := v.Addr().Interface().(*time.Time); ok {
			*t = t.UTC().Round(0)
			if t.IsZero() {
				*t = time.Time{}
			}
			return
		}
		if _, ok := v.Interface().(xml.Name); ok {
			if v.CanSet() {
				v.Set(reflect.Zero(v.Type()))
			}
			return
		}
		for i := 0; i < v.NumField(); i++ {
			if v.Field(i).CanSet() || v.Field(i).Kind() == reflect.Struct || v.Field(i).Kind() == reflect.Ptr || v.Field(i).Kind() == reflect.Slice {
				xgNormalize(v.Field(i))
			}
		}
	case reflect.Slice:
		if v.Len() == 0 {
			if v.CanSet() && !v.IsNil() {
				v.Set(reflect.Zero(v.Type()))
			}
			return
		}
		for i := 0; i < v.Len(); i++ {
			xgNormalize(v.Index(i))
		}
	}
}

func xgEqual(a, b interface{}) bool {
	xgNormalize(reflect.ValueOf(a))
	xgNormalize(reflect.ValueOf(b))
	return reflect.DeepEqual(a, b)
}

func xgDump(v interface{}) string {
	s := fmt.Sprintf("%+v", v)
	if b, err := xml.Marshal(v); err == nil {
		s = string(b)
	}
	if len(s) > 1500 {
		s = s[:1500] + "…"
	}
	return s
}

// ---- an independent XML writer for OSM XML (its own knowledge of the vocabulary) ----

type xw struct {
	b *strings.Builder
	r *Rng
	// noise knobs
	shuffleAttrs, whitespace, comments, unknown bool
}

func xwEsc(s string, attr bool) string {
	var b strings.Builder
	for _, c := range s {
		switch c {
		case '&':
			b.WriteString("&amp;")
		case '<':
			b.WriteString("&lt;")
		case '>':
			b.WriteString("&gt;")
		case '"':
			if attr {
				b.WriteString("&quot;")
			} else {
				b.WriteRune(c)
			}
		case '\'':
			if attr {
				b.WriteString("&#39;")
			} else {
				b.WriteRune(c)
			}
		case '\n':
			b.WriteString("&#10;")
		case '\t':
			b.WriteString("&#x9;")
		default:
			b.WriteRune(c)
		}
	}
	return b.String()
}

// xwCharRef writes the first plain letter of an escaped text as a numeric character reference
func xwCharRef(esc string) string {
	inRef := false
	for i, c := range esc {
		switch {
		case c == '&':
			inRef = true
		case c == ';':
			inRef = false
		case !inRef && (c >= 'a' && c <= 'z' || c > 0x7f):
			return esc[:i] + fmt.Sprintf("&#x%X;", c) + esc[i+len(string(c)):]
		}
	}
	return esc
}

// text writes element content: escaped, or - where the text allows it - as a CDATA section
func (w *xw) text(val string) string {
	if w.whitespace && w.r.Chance(20) && val != "" && !strings.Contains(val, "]]>") && strings.TrimSpace(val) == val {
		return "<![CDATA[" + val + "]]>"
	}
	// character data may reach a decoder in several pieces: a comment or a CDATA boundary in the middle of a text
	if w.comments && w.r.Chance(25) && len(val) >= 2 {
		rs := []rune(val)
		k := 1 + w.r.Intn(len(rs)-1)
		a, b := string(rs[:k]), string(rs[k:])
		if w.r.Bool() || strings.Contains(a, "]]>") {
			return xwEsc(a, false) + "<!-- c -->" + xwEsc(b, false)
		}
		return "<![CDATA[" + a + "]]>" + xwEsc(b, false)
	}
	e := xwEsc(val, false)
	if w.whitespace && w.r.Chance(10) {
		e = xwCharRef(e)
	}
	return e
}

func (w *xw) ws() {
	if w.whitespace {
		w.b.WriteString([]string{"", "\n", "\n  ", " ", "\t"}[w.r.Intn(5)])
	}
	if w.comments && w.r.Chance(15) {
		w.b.WriteString("<!-- a <comment> & more -->")
	}
}

// open writes <name attrs…> (or <name attrs…/> when selfClose) with optional attribute shuffling and unknown attributes.
func (w *xw) open(name string, attrs [][2]string, selfClose bool) {
	w.ws()
	if w.unknown && w.r.Chance(20) {
		attrs = append(attrs, [2]string{"x-unknown", "zzz"})
	}
	if w.shuffleAttrs {
		p := w.r.Perm(len(attrs))
		sh := make([][2]string, len(attrs))
		for i, j := range p {
			sh[i] = attrs[j]
		}
		attrs = sh
	}
	w.b.WriteString("<" + name)
	for _, a := range attrs {
		q := `"`
		if w.whitespace && w.r.Chance(20) {
			q = `'`
		}
		val := xwEsc(a[1], true)
		if w.whitespace && w.r.Chance(10) {
			val = xwCharRef(val)
		}
		if q == `'` {
			val = strings.ReplaceAll(val, "&quot;", `"`)
		}
		sep := " "
		if w.whitespace && w.r.Chance(20) {
			sep = "\n   "
		}
		w.b.WriteString(sep + a[0] + "=" + q + val + q)
	}
	if selfClose {
		w.b.WriteString("/>")
	} else {
		w.b.WriteString(">")
	}
}
func (w *xw) close(name string) { w.ws(); w.b.WriteString("</" + name + ">") }

// leaf writes an element without children: self-closed, or as an explicit start/end pair (with layout
// noise between the two tags when enabled)
func (w *xw) leaf(name string, attrs [][2]string) {
	if w.r.Chance(60) {
		w.open(name, attrs, true)
		return
	}
	w.open(name, attrs, false)
	w.close(name)
}
func (w *xw) unknownElem() {
	if w.unknown && w.r.Chance(20) {
		// elements outside the OSM vocabulary, some named like elements of other vocabularies
		w.b.WriteString([]string{
			`<x-extension flag="1"><x-inner>text</x-inner></x-extension>`,
			`<meta osm_base="2020-01-01T00:00:00Z"> <x-inner/> </meta>`,
			`<link rel="self" href="https://example.test/"> </link>`,
			`<br></br>`,
			`<x:ext xmlns:x="https://example.test/ns" x:flag="1"/>`,
			// XML names are case sensitive: these are not OSM elements either
			`<Node id="990001" lat="1" lon="1" version="1"/>`,
			`<WAY id="990002"><ND ref="1"/></WAY>`,
			`<Relation id="990003"></Relation>`,
			`<Changeset id="990004"/>`,
			`<NOTE lat="1" lon="1"></NOTE>`,
			`<User id="990005" display_name="x"/>`,
			`<Bounds minlat="0" minlon="0" maxlat="1" maxlon="1"/>`,
			// what is inside an unknown element is not part of the document either
			`<x-ext><node id="990011" lat="1" lon="1" version="1"/><way id="990012"/></x-ext>`,
			`<reject reason="x"><relation id="990013"></relation><x-inner><changeset id="990014"/></x-inner></reject>`,
		}[w.r.Intn(14)])
	}
}

func xwF(f float64) string   { return strconv.FormatFloat(f, 'f', -1, 64) }
func xwT(t time.Time) string { return t.UTC().Format(time.RFC3339Nano) }

func (w *xw) meta(id int64, user string, uid osm.UserID, visible bool, version int, cs osm.ChangesetID, ts time.Time, committed *time.Time) [][2]string {
	a := [][2]string{{"id", strconv.FormatInt(id, 10)}, {"visible", strconv.FormatBool(visible)}}
	if version != 0 || user != "" || uid != 0 || cs != 0 || !ts.IsZero() {
		a = append(a, [2]string{"user", user}, [2]string{"uid", strconv.FormatInt(int64(uid), 10)}, [2]string{"version", strconv.Itoa(version)},
			[2]string{"changeset", strconv.FormatInt(int64(cs), 10)}, [2]string{"timestamp", xwT(ts)})
	}
	if committed != nil {
		a = append(a, [2]string{"committed", xwT(*committed)})
	}
	return a
}

func (w *xw) tags(ts osm.Tags) {
	for _, t := range ts {
		w.open("tag", [][2]string{{"k", t.Key}, {"v", t.Value}}, w.r.Bool())
		if !strings.HasSuffix(w.b.String(), "/>") {
			w.close("tag")
		}
	}
}

func (w *xw) bounds(b *osm.Bounds) {
	if b == nil {
		return
	}
	w.leaf("bounds", [][2]string{{"minlat", xwF(b.MinLat)}, {"minlon", xwF(b.MinLon)}, {"maxlat", xwF(b.MaxLat)}, {"maxlon", xwF(b.MaxLon)}})
}

func (w *xw) updates(us osm.Updates) {
	for _, u := range us {
		a := [][2]string{{"index", strconv.Itoa(u.Index)}, {"version", strconv.Itoa(u.Version)}, {"timestamp", xwT(u.Timestamp)}}
		if u.ChangesetID != 0 {
			a = append(a, [2]string{"changeset", strconv.FormatInt(int64(u.ChangesetID), 10)})
		}
		if u.Lat != 0 {
			a = append(a, [2]string{"lat", xwF(u.Lat)})
		}
		if u.Lon != 0 {
			a = append(a, [2]string{"lon", xwF(u.Lon)})
		}
		if u.Reverse {
			a = append(a, [2]string{"reverse", "true"})
		}
		w.leaf("update", a)
	}
}

func (w *xw) wayNodes(ns osm.WayNodes) {
	for _, n := range ns {
		a := [][2]string{{"ref", strconv.FormatInt(int64(n.ID), 10)}}
		if n.Version != 0 {
			a = append(a, [2]string{"version", strconv.Itoa(n.Version)})
		}
		if n.ChangesetID != 0 {
			a = append(a, [2]string{"changeset", strconv.FormatInt(int64(n.ChangesetID), 10)})
		}
		if n.Lat != 0 {
			a = append(a, [2]string{"lat", xwF(n.Lat)})
		}
		if n.Lon != 0 {
			a = append(a, [2]string{"lon", xwF(n.Lon)})
		}
		w.leaf("nd", a)
	}
}

func (w *xw) node(n *osm.Node) {
	a := w.meta(int64(n.ID), n.User, n.UserID, n.Visible, n.Version, n.ChangesetID, n.Timestamp, n.Committed)
	a = append(a, [2]string{"lat", xwF(n.Lat)}, [2]string{"lon", xwF(n.Lon)})
	if len(n.Tags) == 0 && w.r.Bool() {
		w.leaf("node", a)
		return
	}
	w.open("node", a, false)
	w.unknownElem()
	w.tags(n.Tags)
	w.close("node")
}

func (w *xw) way(x *osm.Way) {
	w.open("way", w.meta(int64(x.ID), x.User, x.UserID, x.Visible, x.Version, x.ChangesetID, x.Timestamp, x.Committed), false)
	w.bounds(x.Bounds)
	w.wayNodes(x.Nodes)
	w.unknownElem()
	w.tags(x.Tags)
	w.updates(x.Updates)
	w.close("way")
}

func (w *xw) relation(x *osm.Relation) {
	w.open("relation", w.meta(int64(x.ID), x.User, x.UserID, x.Visible, x.Version, x.ChangesetID, x.Timestamp, x.Committed), false)
	w.bounds(x.Bounds)
	for _, m := range x.Members {
		a := [][2]string{{"type", string(m.Type)}, {"ref", strconv.FormatInt(m.Ref, 10)}, {"role", m.Role}}
		if m.Version != 0 {
			a = append(a, [2]string{"version", strconv.Itoa(m.Version)})
		}
		if m.ChangesetID != 0 {
			a = append(a, [2]string{"changeset", strconv.FormatInt(int64(m.ChangesetID), 10)})
		}
		if m.Lat != 0 {
			a = append(a, [2]string{"lat", xwF(m.Lat)})
		}
		if m.Lon != 0 {
			a = append(a, [2]string{"lon", xwF(m.Lon)})
		}
		if m.Orientation != 0 {
			a = append(a, [2]string{"orientation", strconv.Itoa(int(m.Orientation))})
		}
		if len(m.Nodes) == 0 {
			w.leaf("member", a)
		} else {
			w.open("member", a, false)
			w.wayNodes(m.Nodes)
			w.close("member")
		}
	}
	w.tags(x.Tags)
	w.unknownElem()
	w.updates(x.Updates)
	w.close("relation")
}

func (w *xw) changeset(c *osm.Changeset) {
	a := [][2]string{{"id", strconv.FormatInt(int64(c.ID), 10)}, {"user", c.User}, {"uid", strconv.FormatInt(int64(c.UserID), 10)},
		{"created_at", xwT(c.CreatedAt)}, {"open", strconv.FormatBool(c.Open)},
		{"min_lat", xwF(c.MinLat)}, {"max_lat", xwF(c.MaxLat)}, {"min_lon", xwF(c.MinLon)}, {"max_lon", xwF(c.MaxLon)}}
	if !c.ClosedAt.IsZero() {
		a = append(a, [2]string{"closed_at", xwT(c.ClosedAt)})
	}
	if c.ChangesCount != 0 {
		a = append(a, [2]string{"num_changes", strconv.Itoa(c.ChangesCount)})
	}
	if c.CommentsCount != 0 {
		a = append(a, [2]string{"comments_count", strconv.Itoa(c.CommentsCount)})
	}
	w.open("changeset", a, false)
	w.tags(c.Tags)
	if c.Discussion != nil && len(c.Discussion.Comments) > 0 {
		w.open("discussion", nil, false)
		for _, cm := range c.Discussion.Comments {
			w.open("comment", [][2]string{{"user", cm.User}, {"uid", strconv.FormatInt(int64(cm.UserID), 10)}, {"date", xwT(cm.Timestamp)}}, false)
			w.b.WriteString("<text>" + w.text(cm.Text) + "</text>")
			w.close("comment")
		}
		w.close("discussion")
	}
	w.close("changeset")
}

func (w *xw) textElem(name, val string) {
	w.ws()
	w.b.WriteString("<" + name + ">" + w.text(val) + "</" + name + ">")
}

const xwNoteLayout = "2006-01-02 15:04:05 MST"

func (w *xw) note(n *osm.Note) {
	w.open("note", [][2]string{{"lat", xwF(n.Lat)}, {"lon", xwF(n.Lon)}}, false)
	w.textElem("id", strconv.FormatInt(int64(n.ID), 10))
	if n.URL != "" {
		w.textElem("url", n.URL)
		w.textElem("comment_url", n.CommentURL)
		w.textElem("close_url", n.CloseURL)
	}
	if n.ReopenURL != "" {
		w.textElem("reopen_url", n.ReopenURL)
	}
	w.textElem("date_created", n.DateCreated.Format(xwNoteLayout))
	w.textElem("status", string(n.Status))
	if !n.DateClosed.IsZero() {
		w.textElem("date_closed", n.DateClosed.Format(xwNoteLayout))
	}
	w.open("comments", nil, false)
	for _, c := range n.Comments {
		w.open("comment", nil, false)
		w.textElem("date", c.Date.Format(xwNoteLayout))
		if c.UserID != 0 {
			w.textElem("uid", strconv.FormatInt(int64(c.UserID), 10))
			w.textElem("user", c.User)
			w.textElem("user_url", c.UserURL)
		}
		w.textElem("action", string(c.Action))
		w.textElem("text", c.Text)
		w.textElem("html", c.HTML)
		w.close("comment")
	}
	w.close("comments")
	w.close("note")
}

func (w *xw) user(u *osm.User) {
	w.open("user", [][2]string{{"id", strconv.FormatInt(int64(u.ID), 10)}, {"display_name", u.Name}, {"account_created", xwT(u.CreatedAt)}}, false)
	w.textElem("description", u.Description)
	w.leaf("img", [][2]string{{"href", u.Img.Href}})
	w.leaf("changesets", [][2]string{{"count", strconv.Itoa(u.Changesets.Count)}})
	w.leaf("traces", [][2]string{{"count", strconv.Itoa(u.Traces.Count)}})
	w.open("blocks", nil, false)
	w.leaf("received", [][2]string{{"count", strconv.Itoa(u.Blocks.Received.Count)}, {"active", strconv.Itoa(u.Blocks.Received.Active)}})
	w.close("blocks")
	w.leaf("home", [][2]string{{"lat", xwF(u.Home.Lat)}, {"lon", xwF(u.Home.Lon)}, {"zoom", strconv.Itoa(u.Home.Zoom)}})
	w.open("languages", nil, false)
	for _, l := range u.Languages {
		w.textElem("lang", l)
	}
	w.close("languages")
	w.open("messages", nil, false)
	w.leaf("received", [][2]string{{"count", strconv.Itoa(u.Messages.Received.Count)}, {"unread", strconv.Itoa(u.Messages.Received.Unread)}})
	w.leaf("sent", [][2]string{{"count", strconv.Itoa(u.Messages.Sent.Count)}})
	w.close("messages")
	w.close("user")
}

// inner writes the children of an <osm> element or of an osmChange block, in the given kind order.
func (w *xw) inner(o *osm.OSM) {
	if o == nil {
		return
	}
	w.bounds(o.Bounds)
	for _, n := range o.Nodes {
		w.node(n)
	}
	w.unknownElem()
	for _, x := range o.Ways {
		w.way(x)
	}
	for _, x := range o.Relations {
		w.relation(x)
	}
	for _, x := range o.Changesets {
		w.changeset(x)
	}
	for _, x := range o.Notes {
		w.note(x)
	}
	for _, x := range o.Users {
		w.user(x)
	}
}

func (w *xw) topAttrs(version, generator, copyright, attribution, license string) [][2]string {
	var a [][2]string
	for _, kv := range [][2]string{{"version", version}, {"generator", generator}, {"copyright", copyright}, {"attribution", attribution}, {"license", license}} {
		if kv[1] != "" {
			a = append(a, kv)
		}
	}
	return a
}
