package main

import (
	"context"
	"fmt"
	"sort"
	"strconv"
	"strings"
	"time"

	"github.com/paulmach/osm"
	"github.com/paulmach/osm/annotate"
)

// C11 / C12 — annotation of ways and relations against child histories. Op:
//
//	ann <way|rel> <threshold s> <ignoreInconsistency> <ignoreMissing> <filterMod> P <parent>... H <history>...
//
// parent:  cs:vis:ts:commit|-:ref.ref…      ref = fid or fid@version (already annotated)
// history: fid=ver:cs:vis:ts:commit|-:lat:lon;…   (any order)
// way: fid = node id. rel: fid even = node member fid/2, odd = relation member fid/2.
// coordinates are integers k meaning k*0.5 degrees; times unix seconds.
func init() {
	register(&Prop{
		ID: "C11",
		Rule: "histories generated from a simulated edit timeline (changesets at increasing times with gaps 0s/1s/seconds/beyond threshold; node modify, multi-edit in one changeset, delete, undelete; parent versions with changing, repeated children; parent delete/undelete) in the commit-time regime (70%) and the timestamp regime (30%), thresholds {0,1,5,1800}, both ignore options, child filters, ways and relations (node and relation members); " +
			"non-trivial = at least 2 parent versions or at least one update produced; distinct = distinct op line; each case annotated 3 times on fresh copies",
		Gen:       func(r *Rng, tier string, emit func(string)) { c11Gen(r, tier, emit, false) },
		Exec:      func(op string) (string, *Violation) { return c11Exec(op, 3) },
		Class:     c11Class,
		ModelSkip: func(op string) bool { return strings.HasPrefix(op, "annd ") },
		Extra: func() map[string]interface{} {
			return map[string]interface{}{"time_travel_comparisons_commit_regime": c11TT[0], "time_travel_comparisons_timestamp_regime": c11TT[1],
				"time_travel_mixed_regime_cases_skipped": c11TT[2]}
		},
	})
	register(&Prop{
		ID: "C12",
		Rule: "as C11 plus a family with many versions of each child sharing one second and parents with more than a dozen updates; every case annotated 20 times (100 in the thorough tier) on fresh deep copies and the serialised results compared; " +
			"a family (15%) of histories with clock skew: two neighbouring versions of a child carry each other's times (model and order checks only, no timeline ground truth); non-trivial = some parent has two updates with equal index and timestamp, or more than 12 updates, or a skewed history with two or more updates; distinct = distinct op line",
		Gen:       func(r *Rng, tier string, emit func(string)) { c11Gen(r, tier, emit, true) },
		Exec:      func(op string) (string, *Violation) { return c11Exec(op, c12Repeats) },
		Class:     c12Class,
		ModelSkip: func(op string) bool { return strings.HasPrefix(op, "annd ") },
	})
}

var c12Repeats = 20

// ground-truth comparisons made by the time-travel oracle: commit regime, timestamp regime, cases skipped as mixed
var c11TT [3]int64

const c11Start = 1347442203 // osm.CommitInfoStart

type c11Child struct {
	ver, cs   int64
	vis       bool
	ts        int64
	commit    int64
	hasCommit bool
	lat, lon  int64
}

type c11Ref struct {
	fid int64
	ver int64
}

type c11Parent struct {
	cs        int64
	vis       bool
	ts        int64
	commit    int64
	hasCommit bool
	refs      []c11Ref
}

type c11Case struct {
	dup    bool // a history holds the same version number twice: only "a function of its input" is claimed
	skew   bool // time stamps do not follow the version numbers: no timeline ground truth, model and order checks only
	kind   string
	thr    int64
	ii, im bool
	fmod   int64
	ps     []c11Parent
	hs     map[int64][]c11Child
	hkeys  []int64
}

func c11ParseOpt(s string) (int64, bool) {
	if s == "-" {
		return 0, false
	}
	x, _ := strconv.ParseInt(s, 10, 64)
	return x, true
}

func c11Parse(op string) (*c11Case, bool) {
	f := fields(op)
	if len(f) < 7 || (f[0] != "ann" && f[0] != "annd" && f[0] != "anns") {
		return nil, false
	}
	c := &c11Case{kind: f[1], hs: map[int64][]c11Child{}, dup: f[0] == "annd", skew: f[0] == "anns"}
	c.thr, _ = strconv.ParseInt(f[2], 10, 64)
	c.ii, c.im = f[3] == "1", f[4] == "1"
	c.fmod, _ = strconv.ParseInt(f[5], 10, 64)
	sec := ""
	for _, t := range f[6:] {
		if t == "P" || t == "H" {
			sec = t
			continue
		}
		if sec == "P" {
			p := strings.Split(t, ":")
			if len(p) != 5 {
				return nil, false
			}
			var pp c11Parent
			pp.cs, _ = strconv.ParseInt(p[0], 10, 64)
			pp.vis = p[1] == "1"
			pp.ts, _ = strconv.ParseInt(p[2], 10, 64)
			pp.commit, pp.hasCommit = c11ParseOpt(p[3])
			if p[4] != "" {
				for _, r := range strings.Split(p[4], ".") {
					fv := strings.Split(r, "@")
					var rf c11Ref
					rf.fid, _ = strconv.ParseInt(fv[0], 10, 64)
					if len(fv) == 2 {
						rf.ver, _ = strconv.ParseInt(fv[1], 10, 64)
					}
					pp.refs = append(pp.refs, rf)
				}
			}
			c.ps = append(c.ps, pp)
		} else if sec == "H" {
			kv := strings.SplitN(t, "=", 2)
			fid, _ := strconv.ParseInt(kv[0], 10, 64)
			var l []c11Child
			if kv[1] != "" {
				for _, v := range strings.Split(kv[1], ";") {
					p := strings.Split(v, ":")
					if len(p) != 7 {
						return nil, false
					}
					var ch c11Child
					ch.ver, _ = strconv.ParseInt(p[0], 10, 64)
					ch.cs, _ = strconv.ParseInt(p[1], 10, 64)
					ch.vis = p[2] == "1"
					ch.ts, _ = strconv.ParseInt(p[3], 10, 64)
					ch.commit, ch.hasCommit = c11ParseOpt(p[4])
					ch.lat, _ = strconv.ParseInt(p[5], 10, 64)
					ch.lon, _ = strconv.ParseInt(p[6], 10, 64)
					l = append(l, ch)
				}
			}
			c.hs[fid] = l
			c.hkeys = append(c.hkeys, fid)
		}
	}
	return c, true
}

// c11Unit is the real duration of one unit of op time. The model computes on integers and the annotation is exact
// and linear in time, so the op times can stand for seconds or for quarter seconds alike: the harness lays them out
// around osm.CommitInfoStart (op time c11Start = CommitInfoStart, so the regime boundary is where the model has it),
// one unit apart, and maps the time stamps of the result back. Every second case runs on quarter seconds: commit
// times inside one second are then different times, as they are in a database.
var c11Unit = time.Second

func c11SetUnit(op string) {
	h := uint32(2166136261)
	for i := 0; i < len(op); i++ {
		h = (h ^ uint32(op[i])) * 16777619
	}
	c11Unit = time.Second
	if h&1 == 1 {
		c11Unit = 250 * time.Millisecond
	}
}

func c11T(ts int64) time.Time {
	return time.Unix(c11Start, 0).UTC().Add(time.Duration(ts-c11Start) * c11Unit)
}

// c11Stamp is the inverse of c11T (for times that are whole units, which every time the annotation hands back is)
func c11Stamp(t time.Time) int64 {
	d := t.Sub(time.Unix(c11Start, 0))
	q := int64(d / c11Unit)
	if d%c11Unit != 0 {
		return -1<<62 + q // not a whole unit: no op time stands for it
	}
	return c11Start + q
}
func c11TP(ts int64, has bool) *time.Time {
	if !has {
		return nil
	}
	t := c11T(ts)
	return &t
}

func (c *c11Case) datasource() *osm.HistoryDatasource {
	ds := &osm.HistoryDatasource{Nodes: map[osm.NodeID]osm.Nodes{}, Relations: map[osm.RelationID]osm.Relations{}, Ways: map[osm.WayID]osm.Ways{}}
	for fid, l := range c.hs {
		if c.kind == "way" || fid%2 == 0 {
			id := osm.NodeID(fid)
			if c.kind == "rel" {
				id = osm.NodeID(fid / 2)
			}
			ns := osm.Nodes{}
			for _, ch := range l {
				ns = append(ns, &osm.Node{ID: id, Version: int(ch.ver), ChangesetID: osm.ChangesetID(ch.cs), Visible: ch.vis,
					Timestamp: c11T(ch.ts), Committed: c11TP(ch.commit, ch.hasCommit), Lat: float64(ch.lat) * 0.5, Lon: float64(ch.lon) * 0.5})
			}
			ds.Nodes[id] = ns
		} else {
			id := osm.RelationID(fid / 2)
			rs := osm.Relations{}
			for _, ch := range l {
				rs = append(rs, &osm.Relation{ID: id, Version: int(ch.ver), ChangesetID: osm.ChangesetID(ch.cs), Visible: ch.vis,
					Timestamp: c11T(ch.ts), Committed: c11TP(ch.commit, ch.hasCommit)})
			}
			ds.Relations[id] = rs
		}
	}
	return ds
}

func (c *c11Case) options() []annotate.Option {
	opts := []annotate.Option{annotate.Threshold(time.Duration(c.thr) * c11Unit)}
	if c.ii {
		opts = append(opts, annotate.IgnoreInconsistency(true))
	}
	if c.im {
		opts = append(opts, annotate.IgnoreMissingChildren(true))
	}
	if c.fmod > 0 {
		m := c.fmod
		kind := c.kind
		opts = append(opts, annotate.ChildFilter(func(id osm.FeatureID) bool {
			fid := id.Ref()
			if kind == "rel" {
				fid = id.Ref() * 2
				if id.Type() == osm.TypeRelation {
					fid++
				}
			}
			return fid%m != 0
		}))
	}
	return opts
}

type c11Out struct {
	err      error
	ways     osm.Ways
	rels     osm.Relations
	rendered string
}

func (c *c11Case) run() c11Out {
	ctx := context.Background()
	ds := c.datasource()
	var out c11Out
	if c.kind == "way" {
		var ways osm.Ways
		for i, p := range c.ps {
			w := &osm.Way{ID: 1, Version: i + 1, ChangesetID: osm.ChangesetID(p.cs), Visible: p.vis, Timestamp: c11T(p.ts), Committed: c11TP(p.commit, p.hasCommit)}
			for _, r := range p.refs {
				w.Nodes = append(w.Nodes, osm.WayNode{ID: osm.NodeID(r.fid), Version: int(r.ver)})
			}
			ways = append(ways, w)
		}
		out.err = annotate.Ways(ctx, ways, ds, c.options()...)
		out.ways = ways
	} else {
		var rels osm.Relations
		for i, p := range c.ps {
			r := &osm.Relation{ID: 1, Version: i + 1, ChangesetID: osm.ChangesetID(p.cs), Visible: p.vis, Timestamp: c11T(p.ts), Committed: c11TP(p.commit, p.hasCommit)}
			for _, rf := range p.refs {
				m := osm.Member{Type: osm.TypeNode, Ref: rf.fid / 2, Version: int(rf.ver), Role: "x"}
				if rf.fid%2 == 1 {
					m.Type = osm.TypeRelation
				}
				r.Members = append(r.Members, m)
			}
			rels = append(rels, r)
		}
		out.err = annotate.Relations(ctx, rels, ds, c.options()...)
		out.rels = rels
	}
	if out.err != nil {
		out.rendered = "err"
		return out
	}
	var b strings.Builder
	b.WriteString("ok")
	showU := func(us osm.Updates) {
		b.WriteString(" U")
		for _, u := range us {
			rev := 0
			if u.Reverse {
				rev = 1
			}
			fmt.Fprintf(&b, " %d:%d:%d:%d:%d:%d:%d", u.Index, u.Version, c11Stamp(u.Timestamp), u.ChangesetID, int64(u.Lat*2), int64(u.Lon*2), rev)
		}
	}
	for i := range c.ps {
		fmt.Fprintf(&b, " | P%d C", i)
		if c.kind == "way" {
			for j, n := range out.ways[i].Nodes {
				fmt.Fprintf(&b, " %d:%d:%d:%d:%d", j, n.Version, n.ChangesetID, int64(n.Lat*2), int64(n.Lon*2))
			}
			showU(out.ways[i].Updates)
		} else {
			for j, m := range out.rels[i].Members {
				fmt.Fprintf(&b, " %d:%d:%d:%d:%d", j, m.Version, m.ChangesetID, int64(m.Lat*2), int64(m.Lon*2))
			}
			showU(out.rels[i].Updates)
		}
	}
	out.rendered = b.String()
	return out
}

func c11Class(op, out string) string {
	np := strings.Count(op[:strings.Index(op+" H ", " H ")], ":") / 4
	hasU := strings.Contains(out, " U ") && !strings.HasSuffix(strings.ReplaceAll(out, " U |", ""), " U") && strings.Contains(strings.ReplaceAll(out, " U |", " "), " U ")
	if out == "err" {
		return "error"
	}
	regime := "commit"
	if strings.Contains(op, ":-:") {
		regime = "timestamp"
	}
	if np >= 2 || hasU {
		if hasU {
			return regime + "-with-updates"
		}
		return regime + "-no-updates"
	}
	return "trivial-single-version"
}

func c12Class(op, out string) string {
	if out == "err" {
		return "trivial-error"
	}
	// look for ties / long lists in the output
	long, tie := false, false
	for _, part := range strings.Split(out, "|") {
		i := strings.Index(part, " U")
		if i < 0 {
			continue
		}
		us := strings.Fields(part[i+2:])
		if len(us) > 12 {
			long = true
		}
		seen := map[string]bool{}
		for _, u := range us {
			p := strings.Split(u, ":")
			k := p[0] + ":" + p[2]
			if seen[k] {
				tie = true
			}
			seen[k] = true
		}
	}
	if strings.HasPrefix(op, "anns ") {
		// a history whose times run against its version numbers, with something to order
		for _, part := range strings.Split(out, "|") {
			if i := strings.Index(part, " U"); i >= 0 && len(strings.Fields(part[i+2:])) >= 2 {
				return "clock-skew"
			}
		}
		return "trivial-clock-skew"
	}
	switch {
	case long && tie:
		return "long-list-with-ties"
	case long:
		return "long-list"
	case tie:
		return "ties"
	}
	return "trivial-no-ties"
}

func c11Exec(op string, repeats int) (string, *Violation) {
	c, ok := c11Parse(op)
	if !ok {
		return "bad-op", nil
	}
	c11SetUnit(op)
	first := c.run()
	// C12: annotation is a function of its input
	for i := 1; i < repeats; i++ {
		again := c.run()
		if again.rendered != first.rendered {
			sig := "nondeterministic-result"
			if (again.err == nil) != (first.err == nil) {
				sig = "nondeterministic-success"
			} else if c11SameUpToTieOrder(first.rendered, again.rendered) {
				sig = "updates-tie-order"
			}
			return first.rendered, &Violation{Signature: sig, Text: fmt.Sprintf("run 1 and run %d on equal input differ:\n%s\n%s", i+1, first.rendered, again.rendered)}
		}
	}
	if c.dup {
		return "dup", nil
	}
	if first.err != nil {
		// documented typed errors
		switch first.err.(type) {
		case *annotate.NoHistoryError, *annotate.NoVisibleChildError:
		default:
			if !strings.Contains(first.err.Error(), "child deleted between parent versions") {
				return "err", &Violation{Signature: "undocumented-error", Text: fmt.Sprintf("annotation failed with %T %v", first.err, first.err)}
			}
		}
		// missing history must be NoHistoryError unless ignored (when it is the only inconsistency)
		return "err", nil
	}
	// every update list ordered by index, then time, then version
	check := func(pi int, us osm.Updates) *Violation {
		for k := 1; k < len(us); k++ {
			a, b := us[k-1], us[k]
			if a.Index > b.Index || (a.Index == b.Index && (a.Timestamp.After(b.Timestamp) || (a.Timestamp.Equal(b.Timestamp) && a.Version > b.Version))) {
				sig := "updates-not-sorted"
				if a.Index == b.Index && a.Timestamp.Equal(b.Timestamp) {
					sig = "updates-tie-order"
				}
				return &Violation{Signature: sig, Text: fmt.Sprintf("parent version %d: update %d (index %d, t %d, v %d) before update %d (index %d, t %d, v %d)", pi+1, k-1, a.Index, c11Stamp(a.Timestamp), a.Version, k, b.Index, c11Stamp(b.Timestamp), b.Version)}
			}
		}
		return nil
	}
	for i := range c.ps {
		var us osm.Updates
		if c.kind == "way" {
			us = first.ways[i].Updates
		} else {
			us = first.rels[i].Updates
		}
		if v := check(i, us); v != nil {
			return first.rendered, v
		}
		// no two different updates of one parent share index, timestamp and version (hypothesis of the
		// order-independence theorem)
		for a := 0; a < len(us); a++ {
			for b := a + 1; b < len(us); b++ {
				if us[a].Index == us[b].Index && us[a].Timestamp.Equal(us[b].Timestamp) && us[a].Version == us[b].Version && us[a] != us[b] {
					return first.rendered, &Violation{Signature: "update-keys-not-injective", Text: fmt.Sprintf("parent version %d: updates %d and %d share index, time and version but differ: %+v %+v", i+1, a, b, us[a], us[b])}
				}
			}
		}
		if !c.ps[i].vis {
			// deleted parent versions receive no annotations
			changed := len(us) > 0
			if c.kind == "way" {
				for j, n := range first.ways[i].Nodes {
					if int64(n.Version) != c.ps[i].refs[j].ver || n.ChangesetID != 0 || n.Lat != 0 || n.Lon != 0 {
						changed = true
					}
				}
			}
			if changed {
				return first.rendered, &Violation{Signature: "deleted-parent-annotated", Text: fmt.Sprintf("parent version %d is not visible but was annotated", i+1)}
			}
		}
	}
	if c.skew {
		// time stamps that do not follow the version numbers: the ground truth of the time-travel oracle (a
		// database timeline) does not exist for such a history; what C12 states - one result, update lists ordered
		// by index, time, version - was checked above, and the model computes the same lists
		return first.rendered, nil
	}
	if v := c.timeTravel(first); v != nil {
		return first.rendered, v
	}
	if v := c.refilter(first); v != nil {
		return first.rendered, v
	}
	return first.rendered, nil
}

// refilter: the documented use of ChildFilter - parents that are already annotated are annotated again with a
// filter naming the children that changed. Here nothing changed, so annotating the annotated parents again with a
// filter that selects one child must leave every update list as it was (C11: with child filters the update list is
// still the list of all later child versions).
func (c *c11Case) refilter(first c11Out) *Violation {
	if c.fmod != 0 || len(c.ps) == 0 || len(c.ps[0].refs) == 0 {
		return nil
	}
	pick := c.ps[0].refs[0].fid
	ctx := context.Background()
	ds := c.datasource()
	render := func(us osm.Updates) string {
		var b strings.Builder
		for _, u := range us {
			fmt.Fprintf(&b, " %d:%d:%d", u.Index, u.Version, c11Stamp(u.Timestamp))
		}
		return b.String()
	}
	opts := append(c.options(), annotate.ChildFilter(func(fid osm.FeatureID) bool {
		if c.kind == "way" {
			return fid.Ref() == pick
		}
		if pick%2 == 1 {
			return fid.Type() == osm.TypeRelation && fid.Ref() == pick/2
		}
		return fid.Type() == osm.TypeNode && fid.Ref() == pick/2
	}))
	if c.kind == "way" {
		var ways osm.Ways
		for _, w := range first.ways {
			cp := *w
			cp.Nodes = append(osm.WayNodes{}, w.Nodes...)
			cp.Updates = append(osm.Updates{}, w.Updates...)
			ways = append(ways, &cp)
		}
		if err := annotate.Ways(ctx, ways, ds, opts...); err != nil {
			return nil // errors under a filter: nothing claimed here
		}
		for i := range ways {
			if a, b := render(first.ways[i].Updates), render(ways[i].Updates); a != b {
				return &Violation{Signature: "filter-drops-other-updates", Text: fmt.Sprintf("parent version %d: annotated again with a ChildFilter selecting child %d only (no history changed), its updates went from [%s ] to [%s ]", i+1, pick, a, b)}
			}
		}
		return nil
	}
	var rels osm.Relations
	for _, r := range first.rels {
		cp := *r
		cp.Members = append(osm.Members{}, r.Members...)
		cp.Updates = append(osm.Updates{}, r.Updates...)
		rels = append(rels, &cp)
	}
	if err := annotate.Relations(ctx, rels, ds, opts...); err != nil {
		return nil
	}
	for i := range rels {
		if a, b := render(first.rels[i].Updates), render(rels[i].Updates); a != b {
			return &Violation{Signature: "filter-drops-other-updates", Text: fmt.Sprintf("parent version %d: annotated again with a ChildFilter selecting child %d only (no history changed), its updates went from [%s ] to [%s ]", i+1, pick, a, b)}
		}
	}
	return nil
}

// c11SameUpToTieOrder: the two renderings differ only in the order of updates that share index and timestamp.
func c11SameUpToTieOrder(a, b string) bool {
	norm := func(s string) string {
		parts := strings.Split(s, "|")
		for pi, part := range parts {
			i := strings.Index(part, " U")
			if i < 0 {
				continue
			}
			us := strings.Fields(part[i+2:])
			sort.SliceStable(us, func(x, y int) bool {
				px, py := strings.Split(us[x], ":"), strings.Split(us[y], ":")
				if px[0] != py[0] {
					return false
				}
				if px[2] != py[2] {
					return false
				}
				vx, _ := strconv.Atoi(px[1])
				vy, _ := strconv.Atoi(py[1])
				return vx < vy
			})
			// group-wise sort: only reorder within equal (index, ts) runs
			for x := 0; x < len(us); {
				y := x
				kx := strings.Split(us[x], ":")
				for y < len(us) {
					ky := strings.Split(us[y], ":")
					if ky[0] != kx[0] || ky[2] != kx[2] {
						break
					}
					y++
				}
				sort.Strings(us[x:y])
				x = y
			}
			parts[pi] = part[:i+2] + " " + strings.Join(us, " ")
		}
		return strings.Join(parts, "|")
	}
	return norm(a) == norm(b)
}

// timeTravel is the ground-truth oracle of C11 in the commit-time regime: for every visible parent version i
// and every time t in [commit_i, commit_{i+1} - threshold), applying the updates up to t gives, for every
// child with a consistent history, the version that was current at t.
func (c *c11Case) timeTravel(o c11Out) *Violation {
	// two regimes have a ground truth: every version of parent and children carries a commit time (the
	// effective time of a version is its commit; the window of parent i is [commit i, commit i+1)), or none
	// does (the effective time is the timestamp; the child reference is chosen by the grouping heuristic, so the
	// window only starts once the grouping threshold has passed: [ts i + thr, ts i+1 - thr)). Mixed histories: nothing claimed.
	nCommit, nTs := 0, 0
	count := func(has bool, commit int64) {
		if has && commit >= c11Start {
			nCommit++
		} else {
			nTs++
		}
	}
	for _, p := range c.ps {
		count(p.hasCommit, p.commit)
	}
	for _, l := range c.hs {
		for _, ch := range l {
			count(ch.hasCommit, ch.commit)
		}
	}
	if nCommit > 0 && nTs > 0 {
		c11TT[2]++
		return nil
	}
	tsRegime := nTs > 0
	if tsRegime {
		if c.thr < 0 {
			return nil
		}
		// from here on "commit" is the effective time
		ps := append([]c11Parent{}, c.ps...)
		for i := range ps {
			ps[i].commit = ps[i].ts
		}
		hs := map[int64][]c11Child{}
		for fid, l := range c.hs {
			s := append([]c11Child{}, l...)
			for k := range s {
				s[k].commit = s[k].ts
			}
			hs[fid] = s
		}
		cc := *c
		cc.ps, cc.hs = ps, hs
		c = &cc
		for i := 1; i < len(c.ps); i++ {
			if c.ps[i].commit < c.ps[i-1].commit {
				return nil
			}
		}
	}
	sorted := map[int64][]c11Child{}
	for fid, l := range c.hs {
		s := append([]c11Child{}, l...)
		sort.Slice(s, func(a, b int) bool { return s[a].ver < s[b].ver })
		for k := 1; k < len(s); k++ {
			if s[k].commit < s[k-1].commit || s[k].ver == s[k-1].ver {
				return nil // not a timeline
			}
		}
		sorted[fid] = s
	}
	currentAt := func(fid, t int64) (c11Child, bool) {
		var cur c11Child
		ok := false
		for _, ch := range sorted[fid] {
			if ch.commit <= t {
				cur, ok = ch, true
			}
		}
		return cur, ok
	}
	for i, p := range c.ps {
		if !p.vis {
			continue
		}
		end := int64(1 << 62)
		if i+1 < len(c.ps) {
			// commit-time regime: the grouping threshold plays no role, the window runs up to the next version's
			// commit (theorem time_travel); timestamp regime: up to the threshold before it (time_travel_ts)
			end = c.ps[i+1].commit
			if tsRegime {
				end -= c.thr
			}
		}
		// timestamp regime: which version a slot carries is the grouping heuristic's choice, but whatever it
		// chooses is a visible version stamped no later than the parent's time stamp plus the threshold, and not
		// after the parent's time stamp unless it belongs to the parent's changeset (theorem child_choice_ts)
		if tsRegime {
			for j, rf := range p.refs {
				if rf.ver != 0 && c.fmod > 0 && rf.fid%c.fmod == 0 {
					continue
				}
				s, has := sorted[rf.fid]
				if !has {
					continue
				}
				var ver int
				if c.kind == "way" {
					ver = o.ways[i].Nodes[j].Version
				} else {
					ver = o.rels[i].Members[j].Version
				}
				if ver == 0 {
					continue // not annotated (no visible child; reported or ignored elsewhere)
				}
				for _, ch := range s {
					if ch.ver != int64(ver) {
						continue
					}
					if !ch.vis || ch.commit > p.commit+c.thr || (ch.commit > p.commit && ch.cs != p.cs) {
						return &Violation{Signature: "child-choice-outside-window", Text: fmt.Sprintf("parent version %d (ts %d, changeset %d, threshold %d), child index %d (fid %d) annotated with version %d (ts %d, changeset %d, visible %v): not a visible version stamped at or before the parent, or within the threshold after it in the parent's changeset", i+1, p.commit, p.cs, c.thr, j, rf.fid, ver, ch.commit, ch.cs, ch.vis)}
					}
				}
			}
		}
		// the annotation itself: every slot carries the version current at the parent's commit, and every
		// update is a version committed after this parent version and before the next one
		if !tsRegime {
			var us osm.Updates
			type slot struct {
				ver int
				cs  osm.ChangesetID
			}
			var slots []slot
			if c.kind == "way" {
				us = o.ways[i].Updates
				for _, n := range o.ways[i].Nodes {
					slots = append(slots, slot{n.Version, n.ChangesetID})
				}
			} else {
				us = o.rels[i].Updates
				for _, m := range o.rels[i].Members {
					slots = append(slots, slot{m.Version, m.ChangesetID})
				}
			}
			for j, rf := range p.refs {
				if rf.ver != 0 && c.fmod > 0 && rf.fid%c.fmod == 0 {
					continue
				}
				if _, has := sorted[rf.fid]; !has {
					continue
				}
				if cur, ok := currentAt(rf.fid, p.commit); ok && cur.vis {
					if int64(slots[j].ver) != cur.ver || int64(slots[j].cs) != cur.cs {
						return &Violation{Signature: "child-not-current-at-commit", Text: fmt.Sprintf("parent version %d (commit %d), child index %d (fid %d) annotated with version %d cs %d, but version %d cs %d was current at the commit", i+1, p.commit, j, rf.fid, slots[j].ver, slots[j].cs, cur.ver, cur.cs)}
					}
				}
			}
			for _, u := range us {
				if u.Index >= len(p.refs) {
					return &Violation{Signature: "update-index-out-of-range", Text: fmt.Sprintf("parent version %d: update %+v", i+1, u)}
				}
				// only where the child's history is consistent at the parent's commit is anything claimed
				if cur, ok := currentAt(p.refs[u.Index].fid, p.commit); !ok || !cur.vis {
					continue
				}
				if c11Stamp(u.Timestamp) <= p.commit || (i+1 < len(c.ps) && c11Stamp(u.Timestamp) > c.ps[i+1].commit) {
					return &Violation{Signature: "update-outside-window", Text: fmt.Sprintf("parent version %d (commit %d, next commit %v): update %+v is stamped at or before this version's commit or after the next version's commit", i+1, p.commit, end, u)}
				}
			}
		}
		// candidate times
		ts := []int64{p.commit}
		for _, s := range sorted {
			for _, ch := range s {
				for _, d := range []int64{-1, 0, 1} {
					ts = append(ts, ch.commit+d)
				}
			}
		}
		if end < 1<<61 {
			ts = append(ts, end-1)
		} else {
			ts = append(ts, p.commit+1000000)
		}
		begin := p.commit
		if tsRegime {
			begin = p.commit + c.thr
			ts = append(ts, begin)
		}
		for _, t := range ts {
			if t < begin || t >= end {
				continue
			}
			// apply on a copy
			type kid struct {
				ver      int
				cs       osm.ChangesetID
				lat, lon float64
			}
			var kids []kid
			if c.kind == "way" {
				w := *o.ways[i]
				w.Nodes = append(osm.WayNodes{}, o.ways[i].Nodes...)
				w.Updates = append(osm.Updates{}, o.ways[i].Updates...)
				if err := w.ApplyUpdatesUpTo(c11T(t)); err != nil {
					return &Violation{Signature: "apply-error", Text: err.Error()}
				}
				for _, n := range w.Nodes {
					kids = append(kids, kid{n.Version, n.ChangesetID, n.Lat, n.Lon})
				}
			} else {
				r := *o.rels[i]
				r.Members = append(osm.Members{}, o.rels[i].Members...)
				r.Updates = append(osm.Updates{}, o.rels[i].Updates...)
				if err := r.ApplyUpdatesUpTo(c11T(t)); err != nil {
					return &Violation{Signature: "apply-error", Text: err.Error()}
				}
				for _, m := range r.Members {
					kids = append(kids, kid{m.Version, m.ChangesetID, m.Lat, m.Lon})
				}
			}
			for j, rf := range p.refs {
				if rf.ver != 0 && c.fmod > 0 && rf.fid%c.fmod == 0 {
					continue // filtered
				}
				if _, has := sorted[rf.fid]; !has {
					continue
				}
				cur, ok := currentAt(rf.fid, t)
				if !ok || !cur.vis {
					continue // inconsistent history at t: nothing is claimed
				}
				// the child must also have been consistent at the parent's own commit - except, in the commit-time
				// regime, under IgnoreInconsistency: the slot is then left unannotated at the commit, and the
				// versions from the commit on are this parent version's updates all the same (applied up to a t at
				// which the child is visible again they leave the version current at t)
				if c0, ok0 := currentAt(rf.fid, p.commit); !ok0 || !c0.vis {
					if tsRegime || !c.ii {
						continue
					}
				}
				if tsRegime {
					if c0, ok0 := currentAt(rf.fid, begin); !ok0 || !c0.vis {
						continue
					}
				}
				k := kids[j]
				if tsRegime {
					c11TT[1]++
				} else {
					c11TT[0]++
				}
				if int64(k.ver) != cur.ver || int64(k.cs) != cur.cs || k.lat != float64(cur.lat)*0.5 || k.lon != float64(cur.lon)*0.5 {
					sig := "time-travel-mismatch"
					if t == p.commit && !tsRegime {
						sig = "child-not-current-at-commit"
					}
					if tsRegime {
						sig = "time-travel-mismatch-timestamp-regime"
					}
					return &Violation{Signature: sig, Text: fmt.Sprintf("parent version %d (commit %d), child index %d (fid %d): after ApplyUpdatesUpTo(%d) version %d cs %d, but version %d cs %d was current at that time (window ends %d)", i+1, p.commit, j, rf.fid, t, k.ver, k.cs, cur.ver, cur.cs, end)}
				}
			}
		}
	}
	return nil
}

func c11Gen(r *Rng, tier string, emit func(string), c12 bool) {
	n := 10000
	if tier == "thorough" {
		n = 60000
		if c12 {
			c12Repeats = 100
			n = 6000
		}
	} else if c12 {
		n = 1200
	}
	for i := 0; i < n; i++ {
		emit(c11GenOne(r, c12 && r.Chance(60), c12 && r.Chance(15)))
	}
}

// c11GenOne simulates a small database timeline and emits the parent versions and child histories.
func c11GenOne(r *Rng, sameSecondFamily, skew bool) string {
	kind := "way"
	if r.Chance(30) {
		kind = "rel"
	}
	commitRegime := r.Chance(70) || sameSecondFamily
	thr := []int64{0, 1, 5, 1800}[r.Intn(4)]
	t := int64(1400000000 + r.Intn(100000))
	if !commitRegime {
		t = int64(1200000000 + r.Intn(100000))
	}
	// a timeline that begins right at osm.CommitInfoStart: every version has a commit time, but element time
	// stamps (a little before the commit) may still lie before the start of commit information
	boundary := commitRegime && r.Chance(8)
	// timestamp regime with a commit time recorded all the same, one that lies before osm.CommitInfoStart and differs
	// from the element's timestamp (a replayed import): such a commit time carries no information and is ignored
	earlyCommit := !commitRegime && r.Chance(25)
	if boundary {
		t = c11Start + int64(r.Intn(3))
	}
	nChildren := 2 + r.Intn(4)
	fids := make([]int64, nChildren)
	for i := range fids {
		fids[i] = int64(10 + i)
		if kind == "rel" {
			fids[i] = int64(2*(10+i)) + int64(r.Intn(2))
		}
	}
	hist := map[int64][]c11Child{}
	visible := map[int64]bool{}
	cs := int64(100)
	inconsistent := false // set below, before the timeline proper starts
	addVersion := func(fid int64, vis bool) {
		l := hist[fid]
		ver := int64(len(l) + 1)
		if len(l) > 0 {
			ver = l[len(l)-1].ver + 1 + int64(r.Intn(10)/9) // occasional gap in version numbers
			if inconsistent && r.Chance(30) {
				ver++ // redacted versions: version numbers and positions in the history drift apart
			}
		}
		ch := c11Child{ver: ver, cs: cs, vis: vis, ts: t, commit: t, hasCommit: commitRegime, lat: int64(1 + r.Intn(300)), lon: int64(1 + r.Intn(300))}
		if commitRegime && r.Chance(30) {
			ch.ts = t - int64(r.Intn(3)) // element timestamp a little before the commit
		}
		if boundary {
			ch.ts = t - int64(r.Intn(40))
		}
		if earlyCommit && r.Chance(70) {
			ch.hasCommit, ch.commit = true, t+int64(1+r.Intn(3000))
		}
		if kind == "rel" && fid%2 == 1 {
			ch.lat, ch.lon = 0, 0
		}
		hist[fid] = append(l, ch)
		visible[fid] = vis
	}
	var parents []c11Parent
	curRefs := []int64{}
	parentVisible := false
	inconsistent = r.Chance(10)
	advance := func() {
		switch r.Intn(6) {
		case 0: // same second
		case 1:
			t++
		case 2, 3:
			t += int64(2 + r.Intn(20))
		default:
			t += thr + int64(1+r.Intn(4000))
		}
	}
	newParent := func(vis bool) {
		p := c11Parent{cs: cs, vis: vis, ts: t, commit: t, hasCommit: commitRegime}
		if vis {
			// choose children among the visible ones (create missing ones), repeats allowed
			k := 1 + r.Intn(4)
			curRefs = curRefs[:0]
			for j := 0; j < k; j++ {
				fid := fids[r.Intn(len(fids))]
				if !visible[fid] {
					if len(hist[fid]) == 0 || r.Chance(60) {
						addVersion(fid, true)
					} else if inconsistent && r.Chance(50) {
						// inconsistent data: the parent refers to a child that is deleted at its commit
					} else {
						continue
					}
				}
				curRefs = append(curRefs, fid)
			}
			if len(curRefs) == 0 {
				fid := fids[0]
				if !visible[fid] {
					addVersion(fid, true)
				}
				curRefs = append(curRefs, fid)
			}
			if r.Chance(25) {
				curRefs = append(curRefs, curRefs[0]) // closed way / repeated member
			}
		}
		for _, fid := range curRefs {
			p.refs = append(p.refs, c11Ref{fid: fid})
		}
		parents = append(parents, p)
		parentVisible = vis
	}
	// initial children and first parent version
	for _, fid := range fids {
		if r.Chance(80) {
			addVersion(fid, true)
			if r.Chance(30) {
				advance()
			}
		}
	}
	advance()
	cs++
	newParent(true)
	steps := 2 + r.Intn(8)
	if sameSecondFamily {
		steps = 3
	}
	for s := 0; s < steps; s++ {
		advance()
		cs++
		edits := 1 + r.Intn(3)
		if sameSecondFamily {
			// many versions of every child inside one second, in one changeset
			for _, fid := range curRefs {
				if !visible[fid] {
					continue
				}
				for k := 0; k < 5+r.Intn(4); k++ {
					addVersion(fid, true)
				}
			}
			continue
		}
		stepCS := cs
		for e := 0; e < edits; e++ {
			// a changeset takes time, and changesets of different users interleave: edits of one step may be
			// a few seconds apart and may belong to a second changeset
			if e > 0 && r.Chance(35) {
				t += int64(1 + r.Intn(int(thr/2)+3))
			}
			cs = stepCS
			if r.Chance(25) {
				cs = stepCS + 1000
			}
			fid := fids[r.Intn(len(fids))]
			referenced := false
			for _, x := range curRefs {
				if x == fid {
					referenced = true
				}
			}
			switch r.Intn(10) {
			case 0, 1, 2, 3, 4, 5: // modify (or create)
				addVersion(fid, true)
				if r.Chance(20) {
					addVersion(fid, true) // twice in one changeset, same second
				}
			case 6: // delete
				if visible[fid] && (!referenced || !parentVisible || inconsistent) {
					addVersion(fid, false)
				}
			case 7: // undelete
				if len(hist[fid]) > 0 && !visible[fid] {
					addVersion(fid, true)
				}
			case 8: // new parent version in the same changeset
				newParent(true)
			case 9:
				if r.Chance(30) {
					newParent(!parentVisible || r.Chance(50))
				}
			}
		}
		cs = stepCS
		if r.Chance(35) {
			newParent(true)
			// the same changeset keeps editing children after it uploaded the parent
			if r.Chance(40) {
				for k := 0; k < 1+r.Intn(2); k++ {
					if r.Chance(60) {
						t += int64(1 + r.Intn(int(thr/2)+3))
					}
					if r.Chance(30) {
						cs = stepCS + 1000
					} else {
						cs = stepCS
					}
					if len(curRefs) > 0 {
						addVersion(curRefs[r.Intn(len(curRefs))], true)
					}
				}
				cs = stepCS
			}
		}
	}
	// pre-annotated references and filters
	fmod := int64(0)
	if r.Chance(15) {
		fmod = int64(2 + r.Intn(3))
		for pi := range parents {
			for ri := range parents[pi].refs {
				if r.Chance(50) {
					parents[pi].refs[ri].ver = 1
				}
			}
		}
	}
	// drop a history occasionally
	ii, im := r.Chance(15), r.Chance(15)
	if inconsistent && r.Chance(50) {
		ii = true // inconsistent timelines are mostly annotated the way such data has to be: ignoring inconsistencies
	}
	if r.Chance(6) {
		delete(hist, fids[r.Intn(len(fids))])
	}
	var b strings.Builder
	b01 := func(x bool) int {
		if x {
			return 1
		}
		return 0
	}
	dupVersions, skewed := false, false
	fmt.Fprintf(&b, "ann %s %d %d %d %d P", kind, thr, b01(ii), b01(im), fmod)
	opt := func(v int64, has bool) string {
		if !has {
			return "-"
		}
		return strconv.FormatInt(v, 10)
	}
	for _, p := range parents {
		var rs []string
		for _, rf := range p.refs {
			if rf.ver != 0 {
				rs = append(rs, fmt.Sprintf("%d@%d", rf.fid, rf.ver))
			} else {
				rs = append(rs, strconv.FormatInt(rf.fid, 10))
			}
		}
		fmt.Fprintf(&b, " %d:%d:%d:%s:%s", p.cs, b01(p.vis), p.ts, opt(p.commit, p.hasCommit), strings.Join(rs, "."))
	}
	b.WriteString(" H")
	for _, fid := range fids {
		l, ok := hist[fid]
		if !ok {
			continue
		}
		// a history that is present but holds no version (what "no rows, no error" from a store looks like)
		if r.Chance(2) {
			l = nil
		}
		// the same version number twice, with different content (C12: still a function of the input)
		if sameSecondFamily && len(l) > 0 && r.Chance(25) {
			d := l[len(l)-1]
			d.lat, d.lon = d.lat+1, d.lon+2
			l = append(append([]c11Child{}, l...), d)
			dupVersions = true
		}
		// clock skew: two neighbouring versions carry each other's times, so the later version is the earlier one
		// in time (C12: the update list is ordered by time within an index whatever the version order is)
		if skew && len(l) >= 2 && r.Chance(50) {
			l = append([]c11Child{}, l...)
			k := r.Intn(len(l) - 1)
			l[k].ts, l[k+1].ts = l[k+1].ts, l[k].ts
			l[k].commit, l[k+1].commit = l[k+1].commit, l[k].commit
			skewed = true
		}
		// histories arrive in any order
		if r.Chance(40) {
			p := r.Perm(len(l))
			sh := make([]c11Child, len(l))
			for a, c := range p {
				sh[a] = l[c]
			}
			l = sh
		}
		var vs []string
		for _, ch := range l {
			vs = append(vs, fmt.Sprintf("%d:%d:%d:%d:%s:%d:%d", ch.ver, ch.cs, b01(ch.vis), ch.ts, opt(ch.commit, ch.hasCommit), ch.lat, ch.lon))
		}
		fmt.Fprintf(&b, " %d=%s", fid, strings.Join(vs, ";"))
	}
	if dupVersions {
		return "annd" + b.String()[3:]
	}
	if skewed {
		return "anns" + b.String()[3:]
	}
	return b.String()
}
