module osmverif/harness

go 1.16

require (
	github.com/paulmach/orb v0.1.3
	github.com/paulmach/osm v0.0.0
)

replace github.com/paulmach/osm => /repo
