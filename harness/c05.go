package main

import (
	"bytes"
	"encoding/json"
	"fmt"
	"reflect"
	"sort"
	"strconv"
	"strings"
	"time"

	"github.com/paulmach/osm"
)

// C05 — osmjson shape and round trip, both codec configurations. Ops:
//
//	ver absent|s:<hex>|n:<num>              decode {"version":…,"elements":[]} -> hex(Version)                    [model: uplan]
//	elems label:payload,…                   decode an elements array of minimal objects -> collections or err   [model: runU]
//	mel <v g c a l hex…> b n w r cs no u    marshal a container with counted minimal elements -> keys/bounds/elements [model: runM]
//	tags k=v,…                              Tags -> JSON object -> sorted pairs                                  [model: tagsMap]
//	wn id:ver:cs,…                          WayNodes -> JSON -> WayNodes                                         [model]
//	rt <kind> <seed> <codec>                marshal, shape checks, unmarshal, compare (codec 0 std, 1 both custom, 2 custom marshal, 3 custom unmarshal)
//	doc <seed> <variant> <codec>            independently written osmjson document decoded and compared
func init() {
	register(&Prop{
		ID: "C05",
		Rule: "values of every element kind and of the OSM / Change containers from a seed (every optional field toggled, annotated way nodes, top-level bounds present incl. all-zero, strings needing JSON escapes), marshalled and unmarshalled under four codec configurations (standard; custom marshaler+unmarshaler; each alone) with osmjson shape checks on the generic parse; independently written osmjson documents (version absent / string / number, unknown keys at every level, random key order and layout, \\u escapes, top-level bounds, overpass-style way bounds/geometry); container plans, version decoding, tags and way nodes compared with the model; " +
			"every value marshalled through a pointer and by value; note dates with fractional seconds; references beyond 2^53; " +
			"non-trivial = every op; distinct = distinct op line",
		Gen:  c05Gen,
		Exec: c05Exec,
		Class: func(op, out string) string {
			f := fields(op)
			if f[0] == "rt" || f[0] == "doc" {
				return f[0] + "-" + f[1] + "-codec" + f[len(f)-1]
			}
			return f[0]
		},
		ModelSkip: func(op string) bool { return strings.HasPrefix(op, "rt ") || strings.HasPrefix(op, "doc ") },
	})
}

// altCodec is a user-installed codec: encoding/json behind the interface the library asks for, with a
// different encoder configuration (no HTML escaping, indentation) and call counters.
type altCodec struct{ marshals, unmarshals int }

func (c *altCodec) Marshal(v interface{}) ([]byte, error) {
	c.marshals++
	var buf bytes.Buffer
	enc := json.NewEncoder(&buf)
	enc.SetEscapeHTML(false)
	enc.SetIndent("", " ")
	if err := enc.Encode(v); err != nil {
		return nil, err
	}
	return bytes.TrimRight(buf.Bytes(), "\n"), nil
}
func (c *altCodec) Unmarshal(data []byte, v interface{}) error {
	c.unmarshals++
	return json.NewDecoder(bytes.NewReader(data)).Decode(v)
}

func c05WithCodec(mode int, f func()) *altCodec {
	c := &altCodec{}
	if mode == 1 || mode == 2 {
		osm.CustomJSONMarshaler = c
	}
	if mode == 1 || mode == 3 {
		osm.CustomJSONUnmarshaler = c
	}
	defer func() { osm.CustomJSONMarshaler, osm.CustomJSONUnmarshaler = nil, nil }()
	f()
	return c
}

// c05Strip removes what osmjson has no place for (per-way-node annotations) and orders tags.
func c05Strip(v interface{}) {
	wn := func(ns osm.WayNodes) {
		for i := range ns {
			ns[i] = osm.WayNode{ID: ns[i].ID}
		}
	}
	switch x := v.(type) {
	case *osm.Node:
		x.Tags.SortByKeyValue()
	case *osm.Way:
		x.Tags.SortByKeyValue()
		wn(x.Nodes)
	case *osm.Relation:
		x.Tags.SortByKeyValue()
		for i := range x.Members {
			wn(x.Members[i].Nodes)
		}
	case *osm.Changeset:
		x.Tags.SortByKeyValue()
	case *osm.OSM:
		if x == nil {
			return
		}
		for _, e := range x.Nodes {
			c05Strip(e)
		}
		for _, e := range x.Ways {
			c05Strip(e)
		}
		for _, e := range x.Relations {
			c05Strip(e)
		}
		for _, e := range x.Changesets {
			c05Strip(e)
		}
	case *osm.Change:
		c05Strip(x.Create)
		c05Strip(x.Modify)
		c05Strip(x.Delete)
	}
}

func c05Equal(a, b interface{}) bool {
	c05Strip(a)
	c05Strip(b)
	return xgEqual(a, b)
}

func c05Dump(v interface{}) string {
	b, err := json.Marshal(v)
	if err != nil {
		return fmt.Sprintf("%+v", v)
	}
	return truncate(string(b), 1500)
}

var c05Types = map[string]bool{"node": true, "way": true, "relation": true, "changeset": true, "note": true, "user": true}

// c05Shape checks the osmjson shape of one marshalled OSM container on its generic parse.
func c05Shape(o map[string]interface{}, path string) string {
	el, ok := o["elements"]
	if !ok {
		return "no-elements-key"
	}
	arr, ok := el.([]interface{})
	if !ok {
		return "elements-not-array"
	}
	for i, e := range arr {
		m, ok := e.(map[string]interface{})
		if !ok {
			return "element-not-object"
		}
		t, _ := m["type"].(string)
		if !c05Types[t] {
			if _, has := m["type"]; !has {
				if _, b := m["MinLat"]; b {
					return "element-untyped-bounds"
				}
				if _, b := m["minlat"]; b {
					return "element-untyped-bounds"
				}
				return fmt.Sprintf("element-untyped@%d", i)
			}
			return "element-type-unknown"
		}
		if tg, has := m["tags"]; has {
			if _, ok := tg.(map[string]interface{}); !ok {
				return "tags-not-object"
			}
		}
		if t == "way" {
			ns, ok := m["nodes"].([]interface{})
			if !ok {
				return "way-nodes-not-array"
			}
			for _, n := range ns {
				if _, ok := n.(json.Number); !ok {
					return "way-nodes-not-ids"
				}
			}
		}
		if t == "relation" {
			ms, ok := m["members"].([]interface{})
			if !ok {
				return "members-null"
			}
			for _, mm := range ms {
				mo, ok := mm.(map[string]interface{})
				if !ok {
					return "member-not-object"
				}
				if ns, has := mo["nodes"]; has {
					if a, ok := ns.([]interface{}); ok {
						for _, n := range a {
							if _, ok := n.(json.Number); !ok {
								return "member-nodes-not-ids"
							}
						}
					}
				}
			}
		}
	}
	if b, has := o["bounds"]; has {
		bm, ok := b.(map[string]interface{})
		if !ok {
			return "bounds-not-object"
		}
		for _, k := range []string{"minlat", "minlon", "maxlat", "maxlon"} {
			if _, ok := bm[k].(json.Number); !ok {
				return "bounds-keys-not-osmjson"
			}
		}
	}
	return ""
}

func c05Generic(data []byte) (map[string]interface{}, error) {
	d := json.NewDecoder(bytes.NewReader(data))
	d.UseNumber()
	var m map[string]interface{}
	err := d.Decode(&m)
	return m, err
}

// ---- the independent osmjson writer ----

type jw struct {
	r                        *Rng
	shuffle, layout, unknown bool
	escapeAll                bool
}

func (w *jw) str(s string) string {
	var b strings.Builder
	b.WriteByte('"')
	for _, c := range s {
		switch {
		case c == '"':
			b.WriteString(`\"`)
		case c == '\\':
			b.WriteString(`\\`)
		case c == '\n':
			b.WriteString(`\n`)
		case c == '\t':
			b.WriteString(`\t`)
		case c == '/' && w.escapeAll:
			b.WriteString(`\/`)
		case c < 0x20:
			fmt.Fprintf(&b, `\u%04x`, c)
		case c > 0x7e && w.escapeAll:
			if c > 0xffff {
				c -= 0x10000
				fmt.Fprintf(&b, `\u%04x\u%04x`, 0xd800+(c>>10), 0xdc00+(c&0x3ff))
			} else {
				fmt.Fprintf(&b, `\u%04X`, c)
			}
		default:
			b.WriteRune(c)
		}
	}
	b.WriteByte('"')
	return b.String()
}
func (w *jw) sp() string {
	if w.layout {
		return []string{"", " ", "\n  ", "\t"}[w.r.Intn(4)]
	}
	return ""
}
func (w *jw) obj(kv [][2]string) string {
	if w.unknown && w.r.Chance(40) {
		kv = append(kv, [][2]string{{"x_unknown", `{"a":[1,2,{"type":"node"}],"b":null}`}, {"geometry", `[{"lat":1.5,"lon":2.5},null]`}, {"center", `{"lat":1,"lon":2}`}}[w.r.Intn(3)])
	}
	if w.shuffle {
		p := w.r.Perm(len(kv))
		sh := make([][2]string, len(kv))
		for i, j := range p {
			sh[i] = kv[j]
		}
		kv = sh
	}
	var b strings.Builder
	b.WriteString("{" + w.sp())
	for i, e := range kv {
		if i > 0 {
			b.WriteString("," + w.sp())
		}
		b.WriteString(w.str(e[0]) + w.sp() + ":" + w.sp() + e[1])
	}
	b.WriteString(w.sp() + "}")
	return b.String()
}
func (w *jw) arr(items []string) string {
	return "[" + w.sp() + strings.Join(items, ","+w.sp()) + w.sp() + "]"
}
func jwF(f float64) string { return strconv.FormatFloat(f, 'f', -1, 64) }
func (w *jw) tags(ts osm.Tags) string {
	var kv [][2]string
	for _, t := range ts {
		kv = append(kv, [2]string{t.Key, w.str(t.Value)})
	}
	u := w.unknown
	w.unknown = false // an unknown key inside tags would be a tag
	s := w.obj(kv)
	w.unknown = u
	return s
}
func (w *jw) meta(kv [][2]string, user string, uid osm.UserID, visible bool, version int, cs osm.ChangesetID, ts time.Time) [][2]string {
	kv = append(kv, [2]string{"visible", strconv.FormatBool(visible)})
	if version != 0 {
		kv = append(kv, [2]string{"version", strconv.Itoa(version)})
	}
	if cs != 0 {
		kv = append(kv, [2]string{"changeset", strconv.FormatInt(int64(cs), 10)})
	}
	if user != "" {
		kv = append(kv, [2]string{"user", w.str(user)})
	}
	if uid != 0 {
		kv = append(kv, [2]string{"uid", strconv.FormatInt(int64(uid), 10)})
	}
	kv = append(kv, [2]string{"timestamp", w.str(ts.UTC().Format(time.RFC3339Nano))})
	return kv
}
func (w *jw) bounds(b *osm.Bounds) string {
	return w.obj([][2]string{{"minlat", jwF(b.MinLat)}, {"minlon", jwF(b.MinLon)}, {"maxlat", jwF(b.MaxLat)}, {"maxlon", jwF(b.MaxLon)}})
}
func (w *jw) node(n *osm.Node) string {
	kv := [][2]string{{"type", `"node"`}, {"id", strconv.FormatInt(int64(n.ID), 10)}, {"lat", jwF(n.Lat)}, {"lon", jwF(n.Lon)}}
	kv = w.meta(kv, n.User, n.UserID, n.Visible, n.Version, n.ChangesetID, n.Timestamp)
	if len(n.Tags) > 0 {
		kv = append(kv, [2]string{"tags", w.tags(n.Tags)})
	}
	return w.obj(kv)
}
func (w *jw) way(x *osm.Way) string {
	kv := [][2]string{{"type", `"way"`}, {"id", strconv.FormatInt(int64(x.ID), 10)}}
	kv = w.meta(kv, x.User, x.UserID, x.Visible, x.Version, x.ChangesetID, x.Timestamp)
	var ids []string
	for _, n := range x.Nodes {
		ids = append(ids, strconv.FormatInt(int64(n.ID), 10))
	}
	kv = append(kv, [2]string{"nodes", w.arr(ids)})
	if len(x.Tags) > 0 {
		kv = append(kv, [2]string{"tags", w.tags(x.Tags)})
	}
	if x.Bounds != nil {
		kv = append(kv, [2]string{"bounds", w.bounds(x.Bounds)})
	}
	return w.obj(kv)
}
func (w *jw) relation(x *osm.Relation) string {
	kv := [][2]string{{"type", `"relation"`}, {"id", strconv.FormatInt(int64(x.ID), 10)}}
	kv = w.meta(kv, x.User, x.UserID, x.Visible, x.Version, x.ChangesetID, x.Timestamp)
	var ms []string
	for _, m := range x.Members {
		ms = append(ms, w.obj([][2]string{{"type", w.str(string(m.Type))}, {"ref", strconv.FormatInt(m.Ref, 10)}, {"role", w.str(m.Role)}}))
	}
	kv = append(kv, [2]string{"members", w.arr(ms)})
	if len(x.Tags) > 0 {
		kv = append(kv, [2]string{"tags", w.tags(x.Tags)})
	}
	if x.Bounds != nil {
		kv = append(kv, [2]string{"bounds", w.bounds(x.Bounds)})
	}
	return w.obj(kv)
}

// c05Doc writes an osmjson document for a seeded value. versionForm: 0 absent, 1 string, 2 number.
func c05Doc(seed uint64, variant int) (string, *osm.OSM) {
	r := NewRng(seed)
	w := &jw{r: NewRng(seed ^ 0x15a), shuffle: variant&1 != 0, layout: variant&2 != 0, unknown: variant&4 != 0, escapeAll: variant&8 != 0}
	o := &osm.OSM{}
	for i := r.Intn(4); i > 0; i-- {
		switch r.Intn(3) {
		case 0:
			n := xgNode(r)
			n.Committed = nil
			o.Nodes = append(o.Nodes, n)
		case 1:
			x := xgWay(r)
			x.Committed, x.Updates = nil, nil
			for i := range x.Nodes {
				x.Nodes[i] = osm.WayNode{ID: x.Nodes[i].ID}
			}
			o.Ways = append(o.Ways, x)
		default:
			x := xgRelation(r)
			x.Committed, x.Updates = nil, nil
			for i := range x.Members {
				m := x.Members[i]
				x.Members[i] = osm.Member{Type: m.Type, Ref: m.Ref, Role: m.Role}
			}
			o.Relations = append(o.Relations, x)
		}
	}
	var kv [][2]string
	switch (variant >> 4) % 3 {
	case 1:
		o.Version = "0.6"
		kv = append(kv, [2]string{"version", `"0.6"`})
	case 2:
		o.Version = "0.6"
		kv = append(kv, [2]string{"version", `0.6`})
	}
	if r.Bool() {
		o.Generator = "Overpass API 0.7.62 \"x\""
		kv = append(kv, [2]string{"generator", w.str(o.Generator)})
	}
	if r.Chance(30) {
		o.Copyright, o.Attribution, o.License = osm.Copyright, osm.Attribution, osm.License
		kv = append(kv, [2]string{"copyright", w.str(o.Copyright)}, [2]string{"attribution", w.str(o.Attribution)}, [2]string{"license", w.str(o.License)})
	}
	if w.unknown {
		kv = append(kv, [2]string{"osm3s", `{"timestamp_osm_base":"2024-01-01T00:00:00Z","copyright":"inner"}`})
	}
	if r.Chance(40) {
		o.Bounds = xgBounds(r)
		kv = append(kv, [2]string{"bounds", w.bounds(o.Bounds)})
	}
	// elements in a mixed order of kinds, order within a kind kept
	var lanes [][]string
	var l []string
	for _, n := range o.Nodes {
		l = append(l, w.node(n))
	}
	lanes = append(lanes, l)
	l = nil
	for _, x := range o.Ways {
		l = append(l, w.way(x))
	}
	lanes = append(lanes, l)
	l = nil
	for _, x := range o.Relations {
		l = append(l, w.relation(x))
	}
	lanes = append(lanes, l)
	var items []string
	for {
		var live []int
		for i, ln := range lanes {
			if len(ln) > 0 {
				live = append(live, i)
			}
		}
		if len(live) == 0 {
			break
		}
		i := live[0]
		if w.shuffle {
			i = live[r.Intn(len(live))]
		}
		items = append(items, lanes[i][0])
		lanes[i] = lanes[i][1:]
	}
	kv = append(kv, [2]string{"elements", w.arr(items)})
	u := w.unknown
	w.unknown = false
	text := w.obj(kv)
	w.unknown = u
	return text, o
}

func c05Exec(op string) (string, *Violation) {
	f := fields(op)
	switch f[0] {
	case "ver":
		doc := `{"elements":[]}`
		want := ""
		switch {
		case f[1] == "null":
			doc = `{"version":null,"elements":[]}`
		case strings.HasPrefix(f[1], "s:"), strings.HasPrefix(f[1], "e:"):
			s, _ := unhx(f[1][2:])
			want = s
			w := &jw{escapeAll: f[1][0] == 'e'} // e: every non-ASCII character and '/' written as an escape
			doc = `{"version":` + w.str(s) + `,"elements":[]}`
		case strings.HasPrefix(f[1], "n:"):
			want = f[1][2:]
			doc = `{"version":` + f[1][2:] + `,"elements":[]}`
		}
		o := &osm.OSM{}
		if err := json.Unmarshal([]byte(doc), o); err != nil {
			return "err", &Violation{Signature: "json-version-decode-error", Text: err.Error() + "\n" + doc}
		}
		var v *Violation
		if (f[1] == "absent" || f[1] == "null") && o.Version != "" {
			v = &Violation{Signature: "json-version-placeholder", Text: fmt.Sprintf("decoding an osmjson document without a version (absent or null) leaves Version = %q, not empty.\ndocument: %s", o.Version, doc)}
		} else if o.Version != want {
			v = &Violation{Signature: "json-version-not-as-written", Text: fmt.Sprintf("the version of the document decodes to %q, written %q.\ndocument: %s", o.Version, want, doc)}
		}
		return hx(o.Version), v
	case "elems":
		var items []string
		if len(f) > 1 {
			for _, e := range strings.Split(f[1], ",") {
				p := strings.SplitN(e, ":", 2)
				if p[0] == "" {
					items = append(items, `{"id":`+p[1]+`}`)
				} else {
					items = append(items, `{"type":"`+p[0]+`","id":`+p[1]+`}`)
				}
			}
		}
		o := &osm.OSM{}
		if err := json.Unmarshal([]byte(`{"elements":[`+strings.Join(items, ",")+`]}`), o); err != nil {
			return "err", nil
		}
		return c05Colls(o), nil
	case "mel":
		// mel v g c a l b n w r cs no u
		if len(f) != 13 {
			return "bad-op", nil
		}
		o := &osm.OSM{}
		o.Version, _ = unhx(f[1])
		o.Generator, _ = unhx(f[2])
		o.Copyright, _ = unhx(f[3])
		o.Attribution, _ = unhx(f[4])
		o.License, _ = unhx(f[5])
		next := int64(0)
		id := func() int64 { next++; return next }
		cnt := func(i int) int { n, _ := strconv.Atoi(f[i]); return n }
		if cnt(6) == 1 {
			o.Bounds = &osm.Bounds{MinLat: float64(id())}
		}
		for i := 0; i < cnt(7); i++ {
			o.Nodes = append(o.Nodes, &osm.Node{ID: osm.NodeID(id())})
		}
		for i := 0; i < cnt(8); i++ {
			o.Ways = append(o.Ways, &osm.Way{ID: osm.WayID(id())})
		}
		for i := 0; i < cnt(9); i++ {
			o.Relations = append(o.Relations, &osm.Relation{ID: osm.RelationID(id())})
		}
		for i := 0; i < cnt(10); i++ {
			o.Changesets = append(o.Changesets, &osm.Changeset{ID: osm.ChangesetID(id())})
		}
		for i := 0; i < cnt(11); i++ {
			o.Notes = append(o.Notes, &osm.Note{ID: osm.NoteID(id())})
		}
		for i := 0; i < cnt(12); i++ {
			o.Users = append(o.Users, &osm.User{ID: osm.UserID(id())})
		}
		data, err := json.Marshal(o)
		if err != nil {
			return "err", nil
		}
		m, err := c05Generic(data)
		if err != nil {
			return "unparsable", nil
		}
		var keys []string
		for k, v := range m {
			if s, ok := v.(string); ok {
				keys = append(keys, k+"="+hx(s))
			}
		}
		sort.Strings(keys)
		payload := func(e interface{}) string {
			mo, _ := e.(map[string]interface{})
			for _, k := range []string{"id", "minlat", "MinLat"} {
				if n, ok := mo[k].(json.Number); ok {
					return n.String()
				}
			}
			return "?"
		}
		b := "-"
		if bo, ok := m["bounds"]; ok {
			b = payload(bo)
		}
		var els []string
		arr, _ := m["elements"].([]interface{})
		for _, e := range arr {
			mo, _ := e.(map[string]interface{})
			t, _ := mo["type"].(string)
			els = append(els, t+":"+payload(e))
		}
		return "keys=" + strings.Join(keys, ",") + " bounds=" + b + " elements=" + strings.Join(els, ","), nil
	case "tags":
		var ts osm.Tags
		if len(f) > 1 {
			for _, kv := range strings.Split(f[1], ",") {
				p := strings.SplitN(kv, "=", 2)
				k, _ := unhx(p[0])
				v, _ := unhx(p[1])
				ts = append(ts, osm.Tag{Key: k, Value: v})
			}
		}
		data, err := json.Marshal(ts)
		if err != nil {
			return "err", nil
		}
		var m map[string]string
		if err := json.Unmarshal(data, &m); err != nil {
			return "not-object", &Violation{Signature: "json-tags-not-object", Text: "tags do not marshal as a JSON object of strings: " + string(data)}
		}
		var back osm.Tags
		if err := json.Unmarshal(data, &back); err != nil {
			return "err", nil
		}
		var out []string
		for _, t := range back {
			out = append(out, hx(t.Key)+"="+hx(t.Value))
		}
		sort.Strings(out)
		return strings.Join(out, ","), nil
	case "wn":
		var ns osm.WayNodes
		if len(f) > 1 {
			for _, e := range strings.Split(f[1], ",") {
				p := strings.Split(e, ":")
				id, _ := strconv.ParseInt(p[0], 10, 64)
				v, _ := strconv.Atoi(p[1])
				cs, _ := strconv.Atoi(p[2])
				ns = append(ns, osm.WayNode{ID: osm.NodeID(id), Version: v, ChangesetID: osm.ChangesetID(cs), Lat: float64(v), Lon: float64(cs)})
			}
		}
		data, err := json.Marshal(ns)
		if err != nil {
			return "err", nil
		}
		var back osm.WayNodes
		if err := json.Unmarshal(data, &back); err != nil {
			return "err", nil
		}
		var out []string
		for _, n := range back {
			out = append(out, fmt.Sprintf("%d:%d:%d:%v:%v", n.ID, n.Version, n.ChangesetID, n.Lat, n.Lon))
		}
		return string(data) + " " + strings.Join(out, ","), nil
	case "jfields":
		// scalar keys written for a flat record, in order
		v, ok := c04NewRecord(f[1])
		if !ok {
			return "bad-op", nil
		}
		if len(f) > 2 {
			for _, kv := range strings.Split(f[2], ",") {
				p := strings.SplitN(kv, "=", 2)
				val, _ := unhx(p[1])
				if !c04SetField(v, p[0], val) {
					return "bad-op", nil
				}
			}
		}
		data, err := json.Marshal(v.Addr().Interface())
		if err != nil {
			return "err", nil
		}
		return c05ScalarKeys(data, f[1]), nil
	case "jdecode":
		v, ok := c04NewRecord(f[1])
		if !ok {
			return "bad-op", nil
		}
		var kvs []string
		if len(f) > 2 {
			for _, kv := range strings.Split(f[2], ",") {
				p := strings.SplitN(kv, "=", 2)
				val, _ := unhx(p[1])
				kvs = append(kvs, (&jw{}).str(p[0])+":"+c05JSONToken(f[1], p[0], val))
			}
		}
		if err := json.Unmarshal([]byte("{"+strings.Join(kvs, ",")+"}"), v.Addr().Interface()); err != nil {
			return "err", nil
		}
		var out []string
		for _, fk := range c05Fields(f[1]) {
			out = append(out, fk[0]+"="+hx(c03FieldText(v.FieldByName(fk[0]))))
		}
		return strings.Join(out, ","), nil
	case "rt":
		seed, _ := strconv.ParseUint(f[2], 10, 64)
		mode, _ := strconv.Atoi(f[3])
		return c05RoundTrip(f[1], seed, mode)
	case "doc":
		seed, _ := strconv.ParseUint(f[1], 10, 64)
		variant, _ := strconv.Atoi(f[2])
		mode, _ := strconv.Atoi(f[3])
		text, want := c05Doc(seed, variant)
		got := &osm.OSM{}
		var err error
		c05WithCodec(mode, func() { err = json.Unmarshal([]byte(text), got) })
		if err != nil {
			return "decode-error", &Violation{Signature: "json-doc-decode-error", Text: err.Error() + "\n" + truncate(text, 1500)}
		}
		if (variant>>4)%3 == 0 && got.Version != "" {
			return "version-placeholder", &Violation{Signature: "json-version-placeholder", Text: fmt.Sprintf("an osmjson document without a version key decodes to Version = %q.\n%s", got.Version, truncate(text, 600))}
		}
		if want.Bounds != nil && got.Bounds == nil {
			return "bounds-ignored", &Violation{Signature: "json-doc-bounds-ignored", Text: "the top-level bounds of an osmjson document are not decoded.\n" + truncate(text, 800)}
		}
		if !c05Equal(want, got) {
			return "differs", &Violation{Signature: "json-doc-differs", Text: fmt.Sprintf("decoding an independently written osmjson document does not give the written elements.\ndocument: %s\ndecoded: %s\nwritten: %s", truncate(text, 1500), c05Dump(got), c05Dump(want))}
		}
		return "ok", nil
	}
	return "bad-op", nil
}

// json key per Go field of the flat records, written independently of the library's tags (osmjson vocabulary)
var c05KeyName = map[string]map[string]string{
	"Node":             {"ID": "id", "Lat": "lat", "Lon": "lon", "User": "user", "UserID": "uid", "Visible": "visible", "Version": "version", "ChangesetID": "changeset", "Timestamp": "timestamp", "Committed": "committed"},
	"Way":              {"ID": "id", "User": "user", "UserID": "uid", "Visible": "visible", "Version": "version", "ChangesetID": "changeset", "Timestamp": "timestamp", "Committed": "committed"},
	"Relation":         {"ID": "id", "User": "user", "UserID": "uid", "Visible": "visible", "Version": "version", "ChangesetID": "changeset", "Timestamp": "timestamp", "Committed": "committed"},
	"Member":           {"Type": "type", "Ref": "ref", "Role": "role", "Version": "version", "ChangesetID": "changeset", "Lat": "lat", "Lon": "lon", "Orientation": "orientation"},
	"Update":           {"Index": "index", "Version": "version", "Timestamp": "timestamp", "ChangesetID": "changeset", "Lat": "lat", "Lon": "lon", "Reverse": "reverse"},
	"Bounds":           {"MinLat": "minlat", "MaxLat": "maxlat", "MinLon": "minlon", "MaxLon": "maxlon"},
	"Changeset":        {"ID": "id", "User": "user", "UserID": "uid", "CreatedAt": "created_at", "ClosedAt": "closed_at", "Open": "open", "ChangesCount": "num_changes", "MinLat": "min_lat", "MaxLat": "max_lat", "MinLon": "min_lon", "MaxLon": "max_lon", "CommentsCount": "comments_count"},
	"ChangesetComment": {"User": "user", "UserID": "uid", "Timestamp": "date", "Text": "text"},
}

// c05Fields: the scalar fields of the flat records in struct order (the XML attribute fields plus JSON-only scalars)
func c05Fields(typ string) [][2]string {
	fs := append([][2]string{}, c04RecordFields[typ]...)
	if typ == "ChangesetComment" {
		fs = append(fs, [2]string{"Text", "string"})
	}
	return fs
}

func c05Kind(typ, key string) string {
	for gf, k := range c05KeyName[typ] {
		if k == key {
			for _, fk := range c05Fields(typ) {
				if fk[0] == gf {
					return fk[1]
				}
			}
		}
	}
	return "string"
}

// c05JSONToken writes the JSON token for a field text (numbers and booleans bare, the rest as strings)
func c05JSONToken(typ, key, text string) string {
	switch c05Kind(typ, key) {
	case "int", "int8", "float", "bool":
		return text
	}
	return (&jw{}).str(text)
}

// c05ScalarKeys lists the scalar keys of a marshalled record in document order as key=hex(text); floats in
// the shortest 'g' form (the form the ops are written in); the type shim key is left out
func c05ScalarKeys(data []byte, typ string) string {
	d := json.NewDecoder(bytes.NewReader(data))
	d.UseNumber()
	if t, err := d.Token(); err != nil || t != json.Delim('{') {
		return "not-object"
	}
	var out []string
	for d.More() {
		kt, err := d.Token()
		if err != nil {
			return "unparsable"
		}
		key, _ := kt.(string)
		var raw json.RawMessage
		if err := d.Decode(&raw); err != nil {
			return "unparsable"
		}
		if key == "type" && typ != "Member" {
			continue
		}
		var v interface{}
		dd := json.NewDecoder(bytes.NewReader(raw))
		dd.UseNumber()
		if dd.Decode(&v) != nil {
			return "unparsable"
		}
		switch x := v.(type) {
		case string:
			out = append(out, key+"="+hx(x))
		case bool:
			out = append(out, key+"="+hx(strconv.FormatBool(x)))
		case json.Number:
			t := x.String()
			if c05Kind(typ, key) == "float" {
				if fv, err := strconv.ParseFloat(t, 64); err == nil {
					t = strconv.FormatFloat(fv, 'g', -1, 64)
				}
			}
			out = append(out, key+"="+hx(t))
		}
	}
	if len(out) == 0 {
		return "-"
	}
	return strings.Join(out, ",")
}

func c05Colls(o *osm.OSM) string {
	var parts []string
	add := func(name string, ids []string) {
		if len(ids) > 0 {
			parts = append(parts, name+"="+strings.Join(ids, " "))
		}
	}
	var ids []string
	for _, e := range o.Nodes {
		ids = append(ids, strconv.FormatInt(int64(e.ID), 10))
	}
	add("nodes", ids)
	ids = nil
	for _, e := range o.Ways {
		ids = append(ids, strconv.FormatInt(int64(e.ID), 10))
	}
	add("ways", ids)
	ids = nil
	for _, e := range o.Relations {
		ids = append(ids, strconv.FormatInt(int64(e.ID), 10))
	}
	add("relations", ids)
	ids = nil
	for _, e := range o.Changesets {
		ids = append(ids, strconv.FormatInt(int64(e.ID), 10))
	}
	add("changesets", ids)
	ids = nil
	for _, e := range o.Notes {
		ids = append(ids, strconv.FormatInt(int64(e.ID), 10))
	}
	add("notes", ids)
	ids = nil
	for _, e := range o.Users {
		ids = append(ids, strconv.FormatInt(int64(e.ID), 10))
	}
	add("users", ids)
	if len(parts) == 0 {
		return "empty"
	}
	return strings.Join(parts, ";")
}

// c05FracNotes gives the note dates of a value a fractional second: the XML note date format has whole seconds (so
// the shared value generator makes whole seconds), osmjson writes note dates like any other time
func c05FracNotes(v interface{}, seed uint64) {
	frac := func(ns osm.Notes) {
		for _, n := range ns {
			if !n.DateCreated.IsZero() {
				n.DateCreated.Time = n.DateCreated.Add(time.Duration(1+seed%999) * time.Millisecond)
			}
			if !n.DateClosed.IsZero() {
				n.DateClosed.Time = n.DateClosed.Add(time.Duration(1+seed%997) * time.Microsecond)
			}
			for _, c := range n.Comments {
				if !c.Date.IsZero() {
					c.Date.Time = c.Date.Add(time.Duration(1+seed%991) * time.Millisecond)
				}
			}
		}
	}
	if seed%2 == 0 {
		return
	}
	switch x := v.(type) {
	case *osm.Note:
		frac(osm.Notes{x})
	case *osm.OSM:
		frac(x.Notes)
	case *osm.Change:
		for _, o := range []*osm.OSM{x.Create, x.Modify, x.Delete} {
			if o != nil {
				frac(o.Notes)
			}
		}
	}
}

func c05RoundTrip(kind string, seed uint64, mode int) (string, *Violation) {
	v := c04Value(kind, seed)
	c05FracNotes(v, seed)
	back := c04Fresh(kind)
	var data []byte
	var merr, uerr error
	var data2 []byte
	var merr2 error
	codec := c05WithCodec(mode, func() {
		data, merr = json.Marshal(v)
		if merr == nil {
			uerr = json.Unmarshal(data, back)
		}
		// the value itself, not a pointer to it (a marshaler with a pointer receiver is not found for a value)
		if rv := reflect.ValueOf(v); rv.Kind() == reflect.Ptr && !rv.IsNil() {
			data2, merr2 = json.Marshal(rv.Elem().Interface())
		} else {
			data2, merr2 = data, merr
		}
	})
	if merr != nil {
		return "marshal-error", &Violation{Signature: "json-marshal-error-" + kind, Text: merr.Error()}
	}
	if merr2 != nil {
		return "marshal-error", &Violation{Signature: "json-marshal-error-by-value-" + kind, Text: merr2.Error()}
	}
	if !bytes.Equal(data, data2) {
		// the by-value text differs from the by-pointer one: what the property asks of it is that it decodes back
		// to an equal value (a different text as such is not a violation)
		back2 := c04Fresh(kind)
		var uerr2 error
		c05WithCodec(mode, func() { uerr2 = json.Unmarshal(data2, back2) })
		if uerr2 != nil || !c05Equal(v, back2) {
			return "value-form", &Violation{Signature: "json-roundtrip-differs-by-value-" + kind, Text: fmt.Sprintf("a %s marshalled by value (not through a pointer) does not decode back to an equal value (%v):\nby value:   %s\nby pointer: %s", kind, uerr2, truncate(string(data2), 300), truncate(string(data), 300))}
		}
	}
	// shape
	if kind == "osm" || kind == "change" {
		m, err := c05Generic(data)
		if err != nil {
			return "unparsable", &Violation{Signature: "json-unparsable-" + kind, Text: err.Error() + "\n" + truncate(string(data), 800)}
		}
		var docs []map[string]interface{}
		if kind == "osm" {
			docs = append(docs, m)
		} else {
			for _, k := range []string{"create", "modify", "delete"} {
				if d, ok := m[k].(map[string]interface{}); ok {
					docs = append(docs, d)
				}
			}
		}
		for _, d := range docs {
			if s := c05Shape(d, kind); s != "" {
				return "shape-" + s, &Violation{Signature: "json-shape-" + s, Text: "the marshalled JSON is not osmjson-shaped (" + s + "):\n" + truncate(string(data), 1200)}
			}
		}
	} else {
		d := json.NewDecoder(bytes.NewReader(data))
		d.UseNumber()
		var m map[string]interface{}
		if err := d.Decode(&m); err != nil {
			return "unparsable", &Violation{Signature: "json-unparsable-" + kind, Text: err.Error()}
		}
		if s := c05Shape(map[string]interface{}{"elements": []interface{}{m}}, kind); s != "" {
			return "shape-" + s, &Violation{Signature: "json-shape-" + s, Text: "the marshalled JSON element is not osmjson-shaped (" + s + "):\n" + truncate(string(data), 1200)}
		}
	}
	if uerr != nil {
		sig := "json-roundtrip-error-" + kind
		if o, ok := v.(*osm.OSM); ok && o.Bounds != nil {
			sig += "-with-bounds"
		}
		return "unmarshal-error", &Violation{Signature: sig, Text: "the library cannot decode its own JSON output: " + uerr.Error() + "\n" + truncate(string(data), 1200)}
	}
	// OSM.MarshalJSON / UnmarshalJSON always go through the helpers, so an installed codec must have been called
	if (mode == 1 || mode == 2) && codec.marshals == 0 && kind == "osm" {
		return "codec-bypassed", &Violation{Signature: "json-custom-marshaler-not-consulted", Text: "CustomJSONMarshaler installed but never called while marshalling a " + kind}
	}
	if (mode == 1 || mode == 3) && codec.unmarshals == 0 && kind == "osm" {
		return "codec-bypassed", &Violation{Signature: "json-custom-unmarshaler-not-consulted", Text: "CustomJSONUnmarshaler installed but never called while unmarshalling a " + kind}
	}
	if !c05Equal(v, back) {
		sig := "json-roundtrip-differs-" + kind
		if o, ok := v.(*osm.OSM); ok {
			if b, ok2 := back.(*osm.OSM); ok2 && !reflect.DeepEqual(o.Bounds, b.Bounds) {
				sig += "-bounds"
			}
		}
		return "differs", &Violation{Signature: sig, Text: fmt.Sprintf("json.Marshal then json.Unmarshal of a %s (codec configuration %d) does not return an equal value.\njson: %s\nback: %s", kind, mode, truncate(string(data), 1200), c05Dump(back))}
	}
	// the two configurations agree: compare with the standard configuration's text, as generic values
	if mode != 0 {
		std, err := json.Marshal(v)
		if err == nil {
			var a, b interface{}
			_ = json.Unmarshal(std, &a)
			_ = json.Unmarshal(data, &b)
			if !reflect.DeepEqual(a, b) {
				return "codec-differs", &Violation{Signature: "json-codec-output-differs-" + kind, Text: fmt.Sprintf("the JSON written with the custom codec differs (as a value) from the standard one.\nstd: %s\ncustom: %s", truncate(string(std), 700), truncate(string(data), 700))}
			}
		}
	}
	return "ok", nil
}

func c05Gen(r *Rng, tier string, emit func(string)) {
	n := 1500
	if tier == "thorough" {
		n = 8000
	}
	emit("ver absent")
	emit("ver null")
	emit("ver e:" + hx("0.6"))
	emit("ver s:" + hx("0.6"))
	emit("ver n:0.6")
	for i := 0; i < n/3; i++ {
		vs := []string{"0.6", "", "1", "0.60", "v<1>", "日本", "\"0.6\"", "0\\6", "a/b", "tab\there", "🚀"}
		switch r.Intn(5) {
		case 0:
			emit("ver absent")
		case 1:
			emit("ver null")
		case 2:
			emit("ver s:" + hx(vs[r.Intn(len(vs))]))
		case 3:
			emit("ver e:" + hx(vs[r.Intn(len(vs))]))
		default:
			emit("ver n:" + []string{"0.6", "1", "0.61", "6", "12.5", "0.7", "100"}[r.Intn(7)])
		}
	}
	labels := []string{"node", "way", "relation", "changeset", "note", "user", "node", "way", "relation"}
	for i := 0; i < n; i++ {
		k := r.Intn(7)
		var items []string
		for j := 0; j < k; j++ {
			l := labels[r.Intn(len(labels))]
			if r.Chance(4) {
				l = []string{"", "bounds", "area", "Node"}[r.Intn(4)]
			}
			items = append(items, fmt.Sprintf("%s:%d", l, 1+r.Intn(1000)))
		}
		emit(strings.TrimSpace("elems " + strings.Join(items, ",")))
	}
	for i := 0; i < n; i++ {
		s := func() string {
			if r.Chance(45) {
				return hx("")
			}
			return hx(xgStr(r))
		}
		emit(fmt.Sprintf("mel %s %s %s %s %s %d %d %d %d %d %d %d", s(), s(), s(), s(), s(), r.Intn(2), r.Intn(3), r.Intn(3), r.Intn(3), r.Intn(2), r.Intn(2), r.Intn(2)))
	}
	for i := 0; i < n; i++ {
		k := r.Intn(5)
		var kv []string
		for j := 0; j < k; j++ {
			kv = append(kv, hx(xgKeys[r.Intn(4)])+"="+hx(xgStr(r)))
		}
		emit(strings.TrimSpace("tags " + strings.Join(kv, ",")))
	}
	for i := 0; i < n/2; i++ {
		k := r.Intn(5)
		var it []string
		for j := 0; j < k; j++ {
			it = append(it, fmt.Sprintf("%d:%d:%d", xgRef(r, 40), r.Intn(9), r.Intn(99)))
		}
		emit(strings.TrimSpace("wn " + strings.Join(it, ",")))
	}
	var rtypes []string
	for t := range c05KeyName {
		rtypes = append(rtypes, t)
	}
	sortStrings(rtypes)
	for i := 0; i < 2*n; i++ {
		t := rtypes[r.Intn(len(rtypes))]
		var kv, dkv []string
		for _, fk := range c05Fields(t) {
			text := c04RandText(r, fk[1])
			kv = append(kv, fk[0]+"="+hx(text))
			if r.Chance(75) && !(fk[1] == "ptime" && text == "") {
				dkv = append(dkv, c05KeyName[t][fk[0]]+"="+hx(text))
			}
		}
		emit("jfields " + t + " " + strings.Join(kv, ","))
		if r.Chance(30) {
			dkv = append(dkv, "x_unknown="+hx("zzz"))
		}
		p := r.Perm(len(dkv))
		sh := make([]string, len(dkv))
		for a, b := range p {
			sh[a] = dkv[b]
		}
		emit(strings.TrimSpace("jdecode " + t + " " + strings.Join(sh, ",")))
	}
	kinds := []string{"node", "way", "relation", "changeset", "note", "user", "osm", "change", "osm"}
	for i := 0; i < n; i++ {
		for _, k := range kinds {
			emit(fmt.Sprintf("rt %s %d %d", k, r.U64()>>1, r.Intn(4)))
		}
		emit(fmt.Sprintf("doc %d %d %d", r.U64()>>1, r.Intn(48), r.Intn(4)))
		emit(fmt.Sprintf("doc %d %d %d", r.U64()>>1, r.Intn(48), 0))
	}
}
