package main

import (
	"strconv"
	"strings"

	"github.com/paulmach/osm"
)

// C18 — area classification. Ops:
//
//	way <ids,comma|-> <hexk:hexv>...
//	rel <hexk:hexv>...
func init() {
	register(&Prop{
		ID: "C18",
		Rule: "exhaustive over: every listed key x (every listed value of any key + {\"\", no, yes, unlisted}) x area class {absent, \"\", no, yes, other} x {open, closed} x len {3,4,5}; " +
			"all pairs of rule keys x {no, yes, first listed value, unlisted}; plus seeded random multi-key tag sets with shuffled order and unrelated tags; relations over type values. " +
			"non-trivial = closed way with more than 3 refs, or any relation case; distinct = distinct op line",
		Gen:   c18Gen,
		Exec:  c18Exec,
		Class: c18Class,
		Extra: func() map[string]interface{} { return map[string]interface{}{"exhaustive": true} },
	})
}

// pinned copy of the published polygon-features table (independent of polygon.go and of the Lean spec)
type c18Rule struct {
	key, kind string
	values    []string
}

var c18Table = []c18Rule{
	{"building", "all", nil},
	{"highway", "whitelist", []string{"services", "rest_area", "escape", "elevator"}},
	{"natural", "blacklist", []string{"coastline", "cliff", "ridge", "arete", "tree_row"}},
	{"landuse", "all", nil},
	{"waterway", "whitelist", []string{"riverbank", "dock", "boatyard", "dam"}},
	{"amenity", "all", nil},
	{"leisure", "all", nil},
	{"barrier", "whitelist", []string{"city_wall", "ditch", "hedge", "retaining_wall", "wall", "spikes"}},
	{"railway", "whitelist", []string{"station", "turntable", "roundhouse", "platform"}},
	{"boundary", "all", nil},
	{"man_made", "blacklist", []string{"cutline", "embankment", "pipeline"}},
	{"power", "whitelist", []string{"plant", "substation", "generator", "transformer"}},
	{"place", "all", nil},
	{"shop", "all", nil},
	{"aeroway", "blacklist", []string{"taxiway"}},
	{"tourism", "all", nil},
	{"historic", "all", nil},
	{"public_transport", "all", nil},
	{"office", "all", nil},
	{"building:part", "all", nil},
	{"military", "all", nil},
	{"ruins", "all", nil},
	{"area:highway", "all", nil},
	{"craft", "all", nil},
	{"golf", "all", nil},
	{"indoor", "all", nil},
}

func c18Ref(ids []int64, tags osm.Tags) bool {
	if len(ids) <= 3 || ids[0] != ids[len(ids)-1] {
		return false
	}
	m := map[string]string{}
	for i := len(tags) - 1; i >= 0; i-- { // first occurrence wins
		m[tags[i].Key] = tags[i].Value
	}
	if a := m["area"]; a == "no" {
		return false
	} else if a != "" {
		return true
	}
	for _, r := range c18Table {
		v, present := m[r.key]
		if !present || v == "no" {
			continue // the published rule skips a key that is absent or 'no'; an EMPTY value is a value
		}
		in := false
		for _, x := range r.values {
			if x == v {
				in = true
			}
		}
		switch r.kind {
		case "all":
			return true
		case "whitelist":
			if in {
				return true
			}
		case "blacklist":
			if !in {
				return true
			}
		}
	}
	return false
}

func c18ParseTags(toks []string) (osm.Tags, bool) {
	var tags osm.Tags
	for _, t := range toks {
		kv := strings.Split(t, ":")
		if len(kv) != 2 {
			return nil, false
		}
		k, e1 := unhx(kv[0])
		v, e2 := unhx(kv[1])
		if e1 != nil || e2 != nil {
			return nil, false
		}
		tags = append(tags, osm.Tag{Key: k, Value: v})
	}
	return tags, true
}

func c18Class(op, out string) string {
	f := fields(op)
	if f[0] == "rel" {
		return "relation-" + out
	}
	ids := strings.Split(f[1], ",")
	if f[1] == "-" || len(ids) <= 3 {
		return "trivial-short"
	}
	if ids[0] != ids[len(ids)-1] {
		return "trivial-open"
	}
	return "closed-way-" + out
}

func c18Exec(op string) (string, *Violation) {
	f := fields(op)
	switch f[0] {
	case "way":
		var ids []int64
		if f[1] != "-" {
			for _, s := range strings.Split(f[1], ",") {
				x, _ := strconv.ParseInt(s, 10, 64)
				ids = append(ids, x)
			}
		}
		tags, ok := c18ParseTags(f[2:])
		if !ok {
			return "bad-op", nil
		}
		w := &osm.Way{ID: 1, Tags: tags}
		for _, id := range ids {
			w.Nodes = append(w.Nodes, osm.WayNode{ID: osm.NodeID(id)})
		}
		got := w.Polygon()
		want := c18Ref(ids, tags)
		out := strconv.FormatBool(got)
		if got != want {
			// the recorded finding: a listed key present with an empty value is read as absent by the code
			if !got && want {
				emptied := osm.Tags{}
				for _, t := range tags {
					if t.Value != "" || t.Key == "area" {
						emptied = append(emptied, t)
					}
				}
				if c18Ref(ids, emptied) == got {
					return out, &Violation{Signature: "polygon-empty-value-read-as-absent",
						Text: sprintf("Way.Polygon() = %v, published rules say %v for nodes %v tags %v: a listed key with an empty value", got, want, ids, tags)}
				}
			}
			return out, &Violation{Signature: "way-polygon-differs-from-published-rules",
				Text: sprintf("Way.Polygon() = %v, published rules say %v for nodes %v tags %v", got, want, ids, tags)}
		}
		return out, nil
	case "rel":
		tags, ok := c18ParseTags(f[1:])
		if !ok {
			return "bad-op", nil
		}
		r := &osm.Relation{ID: 1, Tags: tags}
		got := r.Polygon()
		t := tags.Find("type")
		want := t == "multipolygon" || t == "boundary"
		out := strconv.FormatBool(got)
		if got != want {
			return out, &Violation{Signature: "relation-polygon", Text: sprintf("Relation.Polygon() = %v want %v for %v", got, want, tags)}
		}
		return out, nil
	}
	return "bad-op", nil
}

func c18Tag(k, v string) string { return hx(k) + ":" + hx(v) }

func c18Gen(r *Rng, tier string, emit func(string)) {
	var allValues []string
	seen := map[string]bool{}
	for _, ru := range c18Table {
		for _, v := range ru.values {
			if !seen[v] {
				seen[v] = true
				allValues = append(allValues, v)
			}
		}
	}
	// values adjacent (in byte order) to listed ones exercise the binary search boundaries
	extra := []string{"", "no", "yes", "unlisted_value", "a", "zzz", "No", "wal", "walls", "dan", "damn", "clif", "cliffs", "taxiwa", "taxiways", "service", "servicesx"}
	values := append(append([]string{}, allValues...), extra...)
	areaClasses := [][]string{nil, {"area", ""}, {"area", "no"}, {"area", "yes"}, {"area", "other"}}
	shapes := []string{}
	for _, n := range []int{3, 4, 5} {
		// open and closed
		var open, closed []string
		for i := 1; i <= n; i++ {
			open = append(open, strconv.Itoa(i))
			if i == n {
				closed = append(closed, "1")
			} else {
				closed = append(closed, strconv.Itoa(i))
			}
		}
		shapes = append(shapes, strings.Join(open, ","), strings.Join(closed, ","))
	}
	shapes = append(shapes, "-", "1", "1,1", "1,2,1", "7,8,9,10,11,12,13,7")
	for _, ru := range c18Table {
		for _, v := range values {
			for ai, ac := range areaClasses {
				for si, sh := range shapes {
					if si >= 6 && (ai != 0) {
						continue
					}
					var toks []string
					toks = append(toks, c18Tag(ru.key, v))
					if ac != nil {
						// area tag before or after the rule tag
						if (ai+si)%2 == 0 {
							toks = append(toks, c18Tag(ac[0], ac[1]))
						} else {
							toks = append([]string{c18Tag(ac[0], ac[1])}, toks...)
						}
					}
					emit("way " + sh + " " + strings.Join(toks, " "))
				}
			}
		}
	}
	// no tags at all / only area
	for _, sh := range shapes {
		emit("way " + sh)
		for _, ac := range areaClasses[1:] {
			emit("way " + sh + " " + c18Tag(ac[0], ac[1]))
		}
	}
	// pairs of rule keys
	closed4 := "1,2,3,1"
	for _, a := range c18Table {
		for _, b := range c18Table {
			if a.key == b.key {
				continue
			}
			va := []string{"no", "yes", "unlisted"}
			if len(a.values) > 0 {
				va = append(va, a.values[0], a.values[len(a.values)-1])
			}
			vb := []string{"no", "yes"}
			if len(b.values) > 0 {
				vb = append(vb, b.values[0])
			}
			for _, x := range va {
				for _, y := range vb {
					emit("way " + closed4 + " " + c18Tag(a.key, x) + " " + c18Tag(b.key, y))
				}
			}
		}
	}
	// random multi-key sets, shuffled, with unrelated tags
	n := 20000
	if tier == "thorough" {
		n = 200000
	}
	unrelated := []string{"name", "source", "ref", "note", "highway:lanes", "areas", "Area", "building_", "type", "addr:street"}
	for i := 0; i < n; i++ {
		var toks []string
		nk := 1 + r.Intn(4)
		perm := r.Perm(len(c18Table))
		for j := 0; j < nk; j++ {
			ru := c18Table[perm[j]]
			v := values[r.Intn(len(values))]
			if len(ru.values) > 0 && r.Chance(50) {
				v = ru.values[r.Intn(len(ru.values))]
			}
			if r.Chance(25) {
				v = "no"
			}
			toks = append(toks, c18Tag(ru.key, v))
		}
		if r.Chance(20) {
			ac := areaClasses[1+r.Intn(4)]
			toks = append(toks, c18Tag(ac[0], ac[1]))
		}
		for j := r.Intn(3); j > 0; j-- {
			toks = append(toks, c18Tag(unrelated[r.Intn(len(unrelated))]+strconv.Itoa(j), "x"))
		}
		p := r.Perm(len(toks))
		sh := make([]string, len(toks))
		for a, b := range p {
			sh[a] = toks[b]
		}
		shape := closed4
		if r.Chance(10) {
			shape = shapes[r.Intn(len(shapes))]
		}
		emit("way " + shape + " " + strings.Join(sh, " "))
	}
	// relations
	for _, t := range []string{"multipolygon", "boundary", "route", "", "Multipolygon", "multipolygon ", "boundaries", "site"} {
		emit("rel " + c18Tag("type", t))
		emit("rel " + c18Tag("name", "x") + " " + c18Tag("type", t))
		emit("rel " + c18Tag("type", t) + " " + c18Tag("building", "yes"))
	}
	emit("rel")
	emit("rel " + c18Tag("building", "yes"))
}
