package main

import (
	"bytes"
	"context"
	"fmt"
	"io"
	"runtime"
	"strconv"
	"strings"
	"sync/atomic"
	"time"

	"github.com/paulmach/osm"
	"github.com/paulmach/osm/osmpbf"
	"github.com/paulmach/osm/osmxml"
)

// C07 — Close and cancellation stop PBF/XML scans promptly, cleanly and race-free. Ops:
//
//	hist pbf <procs> <calls> FILE…        calls: S scan, E err, C close, X cancel — results compared with the state machine
//	hist xml <nobj> <calls>               the same over an XML document with nobj objects
//	stop <procs> <k> <how> <tseed> <blocks>   big file; after k objects stop by close | cancel | cancel-other;
//	                                      observes bytes pulled from the reader, later Scan/Err, remaining goroutines
//	xstop <k> <how> <nobj>                the same for the XML scanner
func init() {
	register(&Prop{
		ID: "C07",
		Rule: "call histories over {Scan, Err, Close, cancel} of length up to 14 with the stop at every position from before the first Scan to after the end of input (PBF with 1..8 decoders, and XML); PBF files of 150 blocks scanned with 1..16 decoders and stopped after k objects (k from 0 to beyond the end) by Close, by cancelling from the scanning goroutine, or from a second goroutine at an arbitrary moment while scanning goes on: bytes pulled from a counting reader when the stop returns and afterwards, later Scan and Err results, goroutines left with osmpbf frames; everything under the Go race detector; " +
			"non-trivial = every op; distinct = distinct op line",
		Gen:  c07Gen,
		Exec: c07Exec,
		Class: func(op, out string) string {
			f := fields(op)
			if f[0] == "hist" {
				return "hist-" + f[1]
			}
			if f[0] == "stop" {
				return "stop-" + f[3]
			}
			return f[0]
		},
		ModelSkip: func(op string) bool { return !strings.HasPrefix(op, "hist ") },
	})
}

type scannerLike interface {
	Scan() bool
	Err() error
	Close() error
}

func c07ErrClass(err error) string {
	switch {
	case err == nil:
		return "nil"
	case err == osm.ErrScannerClosed:
		return "closed"
	case err == context.Canceled || err == context.DeadlineExceeded:
		return "ctx"
	}
	return "failure"
}

func c07History(s scannerLike, cancel func(), calls string) string {
	var out []string
	for _, c := range calls {
		switch c {
		case 'S':
			if s.Scan() {
				out = append(out, "1")
			} else {
				out = append(out, "0")
			}
		case 'E':
			out = append(out, c07ErrClass(s.Err()))
		case 'C':
			s.Close()
			out = append(out, "-")
		case 'X':
			cancel()
			out = append(out, "-")
		}
	}
	s.Close()
	return strings.Join(out, " ")
}

// c07XML writes an <osm> document with n nodes.
func c07XML(n int) []byte {
	var b bytes.Buffer
	b.WriteString(`<?xml version="1.0"?><osm version="0.6">`)
	for i := 1; i <= n; i++ {
		fmt.Fprintf(&b, `<node id="%d" lat="1" lon="2" visible="true"/>`, i)
	}
	b.WriteString(`</osm>`)
	return b.Bytes()
}

type countReader struct {
	r io.Reader
	n int64
}

func (c *countReader) Read(p []byte) (int, error) {
	if len(p) > 512 {
		p = p[:512]
	}
	n, err := c.r.Read(p)
	atomic.AddInt64(&c.n, int64(n))
	return n, err
}

// osmpbfGoroutines counts goroutines that have a frame inside the osmpbf package (the scanner's own).
func osmpbfGoroutines() int {
	buf := make([]byte, 1<<20)
	buf = buf[:runtime.Stack(buf, true)]
	n := 0
	for _, g := range strings.Split(string(buf), "\n\n") {
		if strings.Contains(g, "paulmach/osm/osmpbf.") && !strings.Contains(g, "osmpbfGoroutines") {
			n++
		}
	}
	return n
}

// c07BigFile: a header and `blocks` small dense blocks of 3 nodes each.
func c07BigFile(blocks int) ([]byte, []int, int) {
	pf := &PFile{Header: &PHeader{Req: []string{"OsmSchema-V0.6", "DenseNodes"}}}
	id := int64(0)
	for b := 0; b < blocks; b++ {
		d := &PDense{IDs: []int64{id + 1, 1, 1}, Lat: []int64{int64(b), 1, 1}, Lon: []int64{5, 1, 1}}
		if b > 0 {
			d.IDs[0] = id + 1
		}
		id += 3
		pf.Blocks = append(pf.Blocks, PBlock{Zlib: b%2 == 0, Strings: []string{""}, Groups: []PGroup{{Dense: d}}})
	}
	frames := pf.Frames()
	var ends []int
	pos := 0
	for _, f := range frames {
		pos += len(f.Bytes)
		ends = append(ends, pos)
	}
	return joinFrames(frames), ends, blocks * 3
}

func c07Exec(op string) (string, *Violation) {
	f := fields(op)
	switch f[0] {
	case "hist":
		if f[1] == "pbf" {
			procs, _ := strconv.Atoi(f[2])
			pf, err := ParsePFile(f[4:])
			if err != nil {
				return "bad-op", nil
			}
			ctx, cancel := context.WithCancel(context.Background())
			defer cancel()
			s := osmpbf.New(ctx, bytes.NewReader(joinFrames(pf.Frames())), procs)
			return c07History(s, cancel, f[3]), nil
		}
		n, _ := strconv.Atoi(f[2])
		ctx, cancel := context.WithCancel(context.Background())
		defer cancel()
		s := osmxml.New(ctx, bytes.NewReader(c07XML(n)))
		return c07History(s, cancel, f[3]), nil
	case "stop":
		procs, _ := strconv.Atoi(f[1])
		k, _ := strconv.Atoi(f[2])
		how := f[3]
		tseed, _ := strconv.ParseUint(f[4], 10, 64)
		blocks, _ := strconv.Atoi(f[5])
		data, ends, total := c07BigFile(blocks)
		if len(f) > 6 && f[6] == "resumed" {
			// a resumed scan: the stream starts with a data block (the reader goroutine hands it to decoder 0
			// with a bare send before its loop)
			h := ends[0]
			data = data[h:]
			ends = ends[1:]
			for i := range ends {
				ends[i] -= h
			}
		}
		cr := &countReader{r: bytes.NewReader(data)}
		ctx, cancel := context.WithCancel(context.Background())
		defer cancel()
		before := osmpbfGoroutines()
		s := osmpbf.New(ctx, cr, procs)
		s.FilterNode = func(n *osm.Node) bool { jitter(tseed, int64(n.ID)); return true }
		type res struct {
			got      int
			complete bool
			after    []bool
			errc     string
			atStop   int64
			quiet    int64
		}
		done := make(chan res, 1)
		go func() {
			var r res
			fired := false
			for r.got < k || how == "cancel-other" {
				if how == "cancel-other" && r.got == k && !fired {
					fired = true
					go cancel() // a second goroutine, while this one keeps scanning
				}
				if !s.Scan() {
					r.complete = !fired && r.got == total
					break
				}
				r.got++
			}
			if how == "cancel-other" && !fired {
				cancel()
			}
			switch how {
			case "close":
				s.Close()
			case "cancel":
				cancel()
			}
			r.atStop = atomic.LoadInt64(&cr.n)
			if how == "close" {
				// nothing may go on reading in the background once Close has returned
				time.Sleep(15 * time.Millisecond)
				r.quiet = atomic.LoadInt64(&cr.n)
			}
			for i := 0; i < 3; i++ {
				r.after = append(r.after, s.Scan())
			}
			r.errc = c07ErrClass(s.Err())
			done <- r
		}()
		var r res
		select {
		case r = <-done:
		case <-time.After(30 * time.Second):
			return "HANG", &Violation{Signature: "scan-stop-hang-" + how, Text: fmt.Sprintf("stopping a PBF scan (%s after %d objects, %d decoders) does not return within 30s", how, k, procs)}
		}
		line := fmt.Sprintf("got=%d after=%v err=%s", r.got, r.after, r.errc)
		for _, a := range r.after {
			if a {
				return line, &Violation{Signature: "scan-true-after-stop-" + how, Text: "Scan returned true after the scan was stopped by " + how}
			}
		}
		complete := r.got == total && how != "cancel-other" && k >= total+1
		want := map[string]string{"close": "closed", "cancel": "ctx", "cancel-other": "ctx"}[how]
		if complete {
			want = "nil"
		}
		if how == "cancel-other" && r.got == total {
			// the scan may have met the end of input before the cancellation was seen: nil is then right as well
			if r.errc != "nil" && r.errc != "ctx" {
				return line, &Violation{Signature: "scan-err-after-stop-" + how, Text: fmt.Sprintf("Err reports %s after %s", r.errc, how)}
			}
		} else if r.errc != want {
			return line, &Violation{Signature: "scan-err-after-stop-" + how, Text: fmt.Sprintf("Err reports %s after %s (objects returned %d of %d), expected %s", r.errc, how, r.got, total, want)}
		}
		// promptness: how much input was pulled when the stop returned, and afterwards
		time.Sleep(20 * time.Millisecond)
		later := atomic.LoadInt64(&cr.n)
		if how == "close" && r.quiet != r.atStop {
			return line, &Violation{Signature: "pbf-reads-after-close-returned", Text: fmt.Sprintf("the reader was still being read after Close returned (%d -> %d bytes)", r.atStop, r.quiet)}
		}
		// blocks a stopped pipeline may legitimately have pulled ahead of the consumer
		idx := r.got / 3
		bound := idx + 2*procs + 2*10 + 4
		if !complete && bound < len(ends)-1 && later > int64(ends[bound]) {
			return line, &Violation{Signature: "pbf-stop-consumes-rest-" + how, Text: fmt.Sprintf("after the stop (%s after %d objects = block %d of %d, %d decoders) the scanner went on to pull %d of the %d bytes of the input; the pipeline can hold at most about %d blocks ahead (%d bytes)", how, r.got, idx, blocks, procs, later, len(data), bound-idx, ends[bound])}
		}
		// goroutines
		if how != "close" {
			// Close after a cancellation has to come back too (it waits for the pipeline's goroutines)
			closed := make(chan struct{})
			go func() { s.Close(); close(closed) }()
			select {
			case <-closed:
			case <-time.After(15 * time.Second):
				return "HANG", &Violation{Signature: "scan-close-hang-after-" + how, Text: fmt.Sprintf("Close after %s (after %d objects of a %d block file, %d decoders) does not return within 15s: a goroutine of the pipeline never ends", how, r.got, blocks, procs)}
			}
		}
		deadline := time.Now().Add(3 * time.Second)
		for osmpbfGoroutines() > before && time.Now().Before(deadline) {
			time.Sleep(5 * time.Millisecond)
		}
		if n := osmpbfGoroutines(); n > before {
			return line, &Violation{Signature: "pbf-goroutines-left-" + how, Text: fmt.Sprintf("%d goroutines with osmpbf frames are still alive 3s after the scan was stopped and closed", n-before)}
		}
		return line, nil
	case "xstop":
		k, _ := strconv.Atoi(f[1])
		how := f[2]
		nobj, _ := strconv.Atoi(f[3])
		cr := &countReader{r: bytes.NewReader(c07XML(nobj))}
		ctx, cancel := context.WithCancel(context.Background())
		defer cancel()
		s := osmxml.New(ctx, cr)
		got := 0
		fired := false
		for got < k || how == "cancel-other" {
			if how == "cancel-other" && got == k && !fired {
				fired = true
				go cancel()
			}
			if !s.Scan() {
				break
			}
			got++
		}
		switch how {
		case "close":
			s.Close()
		default:
			cancel()
		}
		at := atomic.LoadInt64(&cr.n)
		var after []bool
		for i := 0; i < 3; i++ {
			after = append(after, s.Scan())
		}
		errc := c07ErrClass(s.Err())
		line := fmt.Sprintf("got=%d after=%v err=%s", got, after, errc)
		for _, a := range after {
			if a {
				return line, &Violation{Signature: "scan-true-after-stop-xml-" + how, Text: "XML Scan returned true after the scan was stopped by " + how}
			}
		}
		if atomic.LoadInt64(&cr.n) != at {
			return line, &Violation{Signature: "xml-reads-after-stop", Text: "the XML scanner read more input after it was stopped"}
		}
		want := map[string]string{"close": "closed", "cancel": "ctx", "cancel-other": "ctx"}[how]
		if got == nobj && k > nobj && how != "cancel-other" {
			want = "nil"
		}
		if how == "cancel-other" && got == nobj {
			if errc != "nil" && errc != "ctx" {
				return line, &Violation{Signature: "scan-err-after-stop-xml-" + how, Text: "Err reports " + errc}
			}
		} else if errc != want {
			return line, &Violation{Signature: "scan-err-after-stop-xml-" + how, Text: fmt.Sprintf("XML Err reports %s after %s (objects %d of %d), expected %s", errc, how, got, nobj, want)}
		}
		return line, nil
	}
	return "bad-op", nil
}

func c07Gen(r *Rng, tier string, emit func(string)) {
	n := 120
	if tier == "thorough" {
		n = 2500
	}
	calls := func(total int) string {
		// S×a, stop, then a mix
		var b strings.Builder
		a := r.Intn(total + 3)
		for i := 0; i < a; i++ {
			b.WriteByte('S')
			if r.Chance(15) {
				b.WriteByte('E')
			}
		}
		b.WriteByte("CX"[r.Intn(2)])
		for i := r.Intn(6); i > 0; i-- {
			b.WriteByte("SSECX"[r.Intn(5)])
		}
		b.WriteByte('E')
		return b.String()
	}
	for i := 0; i < n; i++ {
		pf := genPFile(r, 3, 3)
		total := 0
		for _, bl := range pf.Blocks {
			for _, g := range bl.Groups {
				if g.Dense != nil {
					total += len(g.Dense.IDs)
				}
				total += len(g.Ways) + len(g.Rels)
			}
		}
		emit(fmt.Sprintf("hist pbf %d %s %s", 1+r.Intn(8), calls(total), pf.Tokens()))
		nx := r.Intn(6)
		emit(fmt.Sprintf("hist xml %d %s", nx, calls(nx)))
	}
	hows := []string{"close", "cancel", "cancel-other"}
	m := 60
	if tier == "thorough" {
		m = 1200
	}
	for i := 0; i < m; i++ {
		blocks := 150
		k := r.Intn(90)
		if i%4 == 1 {
			// a file the pipeline can swallow whole: at the stop the end-of-input is already inside the pipeline,
			// queued behind blocks nobody will take any more
			blocks = 12 + r.Intn(14)
			k = r.Intn(4)
		}
		if r.Chance(10) {
			k = blocks*3 + r.Intn(3) // up to and beyond the end
		}
		resumed := ""
		if r.Chance(35) {
			resumed = " resumed"
			if r.Chance(40) {
				k = r.Intn(3) // stop at once: the first block may still be in the reader's hands
			}
		}
		emit(fmt.Sprintf("stop %d %d %s %d %d%s", []int{1, 2, 3, 4, 8, 11, 16, 32}[r.Intn(8)], k, hows[r.Intn(3)], r.U64()>>1, blocks, resumed))
		nobj := 40
		kx := r.Intn(nobj + 3)
		emit(fmt.Sprintf("xstop %d %s %d", kx, hows[r.Intn(3)], nobj))
	}
}
