package main

import (
	"bytes"
	"context"
	"encoding/xml"
	"fmt"
	"reflect"
	"strconv"
	"strings"
	"time"

	"github.com/paulmach/osm"
	"github.com/paulmach/osm/osmxml"
)

// C04 — XML marshal/unmarshal round trips. Ops:
//
//	rt <kind> <seed>                         value generated from the seed: Marshal -> Unmarshal (and -> Scanner) equality   [implementation only]
//	names osm <b> <n> <w> <r> <c> <t> <u>    child element names of a marshalled <osm> with that many children per kind
//	names change <b.n.w.r|-> <…|-> <…|->     block and child names of a marshalled osmChange
//	names action <type> <b.n.w.r|-> <…|-> <…|->   children of a marshalled diff action (own elements, old, new)
//	attrs <Type> Field=hex,…                 attributes (name=hex value, in order) of a marshalled record
func init() {
	register(&Prop{
		ID: "C04",
		Rule: "values of every kind (Node, Way, Relation, Changeset, Note, User, Bounds, OSM, Change, Diff) generated from a seed with every optional field toggled independently (annotated way nodes, member orientation and nested nodes, updates, committed times, element bounds, top-level bounds inside OSM and inside every osmChange block, diff actions of every type), strings needing escapes; plus container shapes and flat records compared with the schema model; " +
			"every value marshalled through a pointer and by value (the property asked of both texts); references beyond 2^53; diff actions with any combination of element/old/new; " +
			"non-trivial = every rt/names/attrs op; distinct = distinct op line",
		Gen:       c04Gen,
		Exec:      c04Exec,
		Class:     func(op, out string) string { f := fields(op); return f[0] + "-" + f[1] },
		ModelSkip: func(op string) bool { return strings.HasPrefix(op, "rt ") },
	})
}

func c04Value(kind string, seed uint64) interface{} {
	r := NewRng(seed)
	switch kind {
	case "node":
		return xgNode(r)
	case "way":
		return xgWay(r)
	case "relation":
		return xgRelation(r)
	case "changeset":
		return xgChangeset(r)
	case "note":
		return xgNote(r)
	case "user":
		return xgUser(r)
	case "bounds":
		return xgBounds(r)
	case "osm":
		o := xgOSM(r, r.Chance(50), false)
		xgTop(r, o)
		return o
	case "change":
		return xgChange(r)
	case "diff":
		return xgDiff(r)
	}
	return nil
}

// c04Objects flattens a decoded document into the objects a scanner is expected to yield, in document order
// as the library's marshaler writes them.
func c04Objects(v interface{}) []osm.Object {
	var out []osm.Object
	addOSM := func(o *osm.OSM) {
		if o == nil {
			return
		}
		if o.Bounds != nil {
			out = append(out, o.Bounds)
		}
		for _, x := range o.Nodes {
			out = append(out, x)
		}
		for _, x := range o.Ways {
			out = append(out, x)
		}
		for _, x := range o.Relations {
			out = append(out, x)
		}
		for _, x := range o.Changesets {
			out = append(out, x)
		}
		for _, x := range o.Notes {
			out = append(out, x)
		}
		for _, x := range o.Users {
			out = append(out, x)
		}
	}
	switch x := v.(type) {
	case *osm.OSM:
		addOSM(x)
	case *osm.Change:
		addOSM(x.Create)
		addOSM(x.Modify)
		addOSM(x.Delete)
	case *osm.Diff:
		for _, a := range x.Actions {
			addOSM(a.OSM)
			addOSM(a.Old)
			addOSM(a.New)
		}
	case osm.Object:
		out = append(out, x)
	}
	return out
}

func c04Scan(data []byte) ([]osm.Object, error) {
	sc := osmxml.New(context.Background(), bytes.NewReader(data))
	defer sc.Close()
	var out []osm.Object
	for sc.Scan() {
		out = append(out, sc.Object())
	}
	return out, sc.Err()
}

func c04Fresh(kind string) interface{} {
	switch kind {
	case "node":
		return &osm.Node{}
	case "way":
		return &osm.Way{}
	case "relation":
		return &osm.Relation{}
	case "changeset":
		return &osm.Changeset{}
	case "note":
		return &osm.Note{}
	case "user":
		return &osm.User{}
	case "bounds":
		return &osm.Bounds{}
	case "osm":
		return &osm.OSM{}
	case "change":
		return &osm.Change{}
	case "diff":
		return &osm.Diff{}
	}
	return nil
}

// c04Signature names the part of a container that did not survive, so that distinct defects get distinct signatures.
func c04Signature(kind string, a, b interface{}) string {
	lost := func(x, y *osm.OSM) string {
		if x == nil || y == nil {
			if x != y {
				return "block-lost"
			}
			return ""
		}
		if (x.Bounds == nil) != (y.Bounds == nil) || (x.Bounds != nil && *x.Bounds != *y.Bounds) {
			return "bounds-lost"
		}
		return ""
	}
	switch x := a.(type) {
	case *osm.OSM:
		if s := lost(x, b.(*osm.OSM)); s != "" {
			return "xml-roundtrip-" + kind + "-" + s
		}
	case *osm.Change:
		y := b.(*osm.Change)
		for _, p := range [][2]*osm.OSM{{x.Create, y.Create}, {x.Modify, y.Modify}, {x.Delete, y.Delete}} {
			if s := lost(p[0], p[1]); s != "" {
				return "xml-roundtrip-" + kind + "-" + s
			}
		}
	}
	return "xml-roundtrip-" + kind
}

type c04Elem struct {
	name     string
	attrs    []xml.Attr
	children []*c04Elem
}

func c04ParseTree(data []byte) (*c04Elem, error) {
	d := xml.NewDecoder(bytes.NewReader(data))
	var stack []*c04Elem
	var root *c04Elem
	for {
		t, err := d.Token()
		if err != nil {
			if root != nil {
				return root, nil
			}
			return nil, err
		}
		switch x := t.(type) {
		case xml.StartElement:
			e := &c04Elem{name: x.Name.Local, attrs: append([]xml.Attr{}, x.Attr...)}
			if len(stack) > 0 {
				p := stack[len(stack)-1]
				p.children = append(p.children, e)
			} else {
				root = e
			}
			stack = append(stack, e)
		case xml.EndElement:
			stack = stack[:len(stack)-1]
		}
	}
}

func c04Counts(s string) *osm.OSM {
	if s == "-" {
		return nil
	}
	p := strings.Split(s, ".")
	get := func(i int) int {
		if i < len(p) {
			n, _ := strconv.Atoi(p[i])
			return n
		}
		return 0
	}
	o := &osm.OSM{}
	if get(0) > 0 {
		o.Bounds = &osm.Bounds{MinLat: 1, MaxLat: 2, MinLon: 3, MaxLon: 4}
	}
	for i := 0; i < get(1); i++ {
		o.Nodes = append(o.Nodes, &osm.Node{ID: osm.NodeID(i + 1)})
	}
	for i := 0; i < get(2); i++ {
		o.Ways = append(o.Ways, &osm.Way{ID: osm.WayID(i + 1)})
	}
	for i := 0; i < get(3); i++ {
		o.Relations = append(o.Relations, &osm.Relation{ID: osm.RelationID(i + 1)})
	}
	for i := 0; i < get(4); i++ {
		o.Changesets = append(o.Changesets, &osm.Changeset{ID: osm.ChangesetID(i + 1)})
	}
	for i := 0; i < get(5); i++ {
		o.Notes = append(o.Notes, &osm.Note{ID: osm.NoteID(i + 1)})
	}
	for i := 0; i < get(6); i++ {
		o.Users = append(o.Users, &osm.User{ID: osm.UserID(i + 1)})
	}
	return o
}

func c04ChildNames(e *c04Elem) string {
	var s []string
	for _, c := range e.children {
		s = append(s, c.name)
	}
	if len(s) == 0 {
		return "-"
	}
	return strings.Join(s, ",")
}

// c04SetField sets a struct field from its XML text form.
func c04SetField(v reflect.Value, name, text string) bool {
	f := v.FieldByName(name)
	if !f.IsValid() {
		return false
	}
	switch f.Kind() {
	case reflect.String:
		f.SetString(text)
	case reflect.Int, reflect.Int64, reflect.Int8:
		n, err := strconv.ParseInt(text, 10, 64)
		if err != nil {
			return false
		}
		f.SetInt(n)
	case reflect.Float64:
		x, err := strconv.ParseFloat(text, 64)
		if err != nil {
			return false
		}
		f.SetFloat(x)
	case reflect.Bool:
		f.SetBool(text == "true")
	case reflect.Struct:
		if _, ok := f.Interface().(time.Time); ok {
			t, err := time.Parse(time.RFC3339Nano, text)
			if err != nil {
				return false
			}
			f.Set(reflect.ValueOf(t))
		}
	case reflect.Ptr:
		if text == "" {
			return true
		}
		t, err := time.Parse(time.RFC3339Nano, text)
		if err != nil {
			return false
		}
		f.Set(reflect.ValueOf(&t))
	default:
		return false
	}
	return true
}

func c04NewRecord(typ string) (reflect.Value, bool) {
	switch typ {
	case "Node":
		return reflect.ValueOf(&osm.Node{}).Elem(), true
	case "Way":
		return reflect.ValueOf(&osm.Way{}).Elem(), true
	case "Relation":
		return reflect.ValueOf(&osm.Relation{}).Elem(), true
	case "WayNode":
		return reflect.ValueOf(&osm.WayNode{}).Elem(), true
	case "Member":
		return reflect.ValueOf(&osm.Member{}).Elem(), true
	case "Update":
		return reflect.ValueOf(&osm.Update{}).Elem(), true
	case "Bounds":
		return reflect.ValueOf(&osm.Bounds{}).Elem(), true
	case "Changeset":
		return reflect.ValueOf(&osm.Changeset{}).Elem(), true
	case "Tag":
		return reflect.ValueOf(&osm.Tag{}).Elem(), true
	case "ChangesetComment":
		return reflect.ValueOf(&osm.ChangesetComment{}).Elem(), true
	}
	return reflect.Value{}, false
}

// OSM XML root element names (pinned from the OSM XML / osmChange / augmented diff formats)
var c04Roots = map[string]string{"node": "node", "way": "way", "relation": "relation", "changeset": "changeset", "note": "note",
	"user": "user", "bounds": "bounds", "osm": "osm", "change": "osmChange", "diff": "osm"}

func c04RootName(data []byte) string {
	d := xml.NewDecoder(bytes.NewReader(data))
	for {
		t, err := d.Token()
		if err != nil {
			return ""
		}
		if se, ok := t.(xml.StartElement); ok {
			return se.Name.Local
		}
	}
}

func c04Exec(op string) (string, *Violation) {
	f := fields(op)
	switch f[0] {
	case "rt":
		seed, _ := strconv.ParseUint(f[2], 10, 64)
		v := c04Value(f[1], seed)
		// the property for one marshalled text: OSM element names (the root first), unmarshals to an equal value,
		// the streaming scanner sees the same objects in document order
		verify := func(data []byte, form string) (string, *Violation) {
			if root, want := c04RootName(data), c04Roots[f[1]]; root != want {
				return "root-name", &Violation{Signature: "xml-root-name-" + f[1] + form, Text: fmt.Sprintf("a %s marshals to a <%s> element, the OSM XML name is <%s>: %s", f[1], root, want, truncate(string(data), 300))}
			}
			back := c04Fresh(f[1])
			if err := xml.Unmarshal(data, back); err != nil {
				return "unmarshal-error", &Violation{Signature: "xml-unmarshal-error-" + f[1] + form, Text: err.Error() + "\n" + string(data)}
			}
			orig := c04Value(f[1], seed)
			if !xgEqual(orig, back) {
				return "differs", &Violation{Signature: c04Signature(f[1], orig, back) + form, Text: fmt.Sprintf("xml.Marshal then xml.Unmarshal of a %s does not return an equal value.\nmarshalled: %s\ndecoded:    %s", f[1], truncate(string(data), 1500), xgDump(back))}
			}
			want := c04Objects(back)
			got, serr := c04Scan(data)
			if serr != nil {
				return "scan-error", &Violation{Signature: "xml-scan-error-" + f[1] + form, Text: serr.Error()}
			}
			if len(got) != len(want) {
				return "scan-differs", &Violation{Signature: c04ScanSig(f[1], want, got) + form, Text: fmt.Sprintf("scanner yields %d objects, whole-document decode has %d.\n%s", len(got), len(want), truncate(string(data), 1200))}
			}
			for i := range got {
				if !xgEqual(got[i], want[i]) {
					return "scan-differs", &Violation{Signature: "xml-scan-differs-" + f[1] + form, Text: fmt.Sprintf("object %d from the scanner differs from the whole-document decode: %s vs %s", i, xgDump(got[i]), xgDump(want[i]))}
				}
			}
			return "ok", nil
		}
		data, err := xml.Marshal(v)
		if err != nil {
			return "marshal-error", &Violation{Signature: "xml-marshal-error", Text: err.Error()}
		}
		if out, viol := verify(data, ""); viol != nil {
			return out, viol
		}
		// the value itself, not a pointer to it: encoding/xml finds a marshaler with a value receiver for both, one
		// with a pointer receiver only for the pointer (and then falls back to reflection and names the element
		// after the Go type). Where the two texts differ, the property is asked of the by-value text as well.
		if rv := reflect.ValueOf(v); rv.Kind() == reflect.Ptr && !rv.IsNil() {
			data2, err2 := xml.Marshal(rv.Elem().Interface())
			if err2 != nil {
				return "marshal-error", &Violation{Signature: "xml-marshal-error-by-value", Text: err2.Error()}
			}
			if !bytes.Equal(data, data2) {
				if out, viol := verify(data2, "-by-value"); viol != nil {
					return out, viol
				}
			}
		}
		return "ok", nil
	case "names":
		switch f[1] {
		case "osm":
			o := c04Counts(strings.Join(f[2:], "."))
			data, _ := xml.Marshal(o)
			t, err := c04ParseTree(data)
			if err != nil {
				return "err", nil
			}
			return t.name + ":" + c04ChildNames(t), nil
		case "change":
			c := &osm.Change{Create: c04Counts(f[2]), Modify: c04Counts(f[3]), Delete: c04Counts(f[4])}
			data, _ := xml.Marshal(c)
			t, err := c04ParseTree(data)
			if err != nil {
				return "err", nil
			}
			var s []string
			for _, b := range t.children {
				s = append(s, b.name+"("+c04ChildNames(b)+")")
			}
			return t.name + ":" + strings.Join(s, " "), nil
		case "action":
			a := osm.Action{Type: osm.ActionType(f[2]), OSM: c04Counts(f[3]), Old: c04Counts(f[4]), New: c04Counts(f[5])}
			data, _ := xml.Marshal(&osm.Diff{Actions: osm.Actions{a}})
			t, err := c04ParseTree(data)
			if err != nil || len(t.children) != 1 {
				return "err", nil
			}
			act := t.children[0]
			var s []string
			for _, b := range act.children {
				if b.name == "old" || b.name == "new" {
					s = append(s, b.name+"("+c04ChildNames(b)+")")
				} else {
					s = append(s, b.name)
				}
			}
			typ := ""
			for _, at := range act.attrs {
				if at.Name.Local == "type" {
					typ = at.Value
				}
			}
			return t.name + "/" + act.name + "[" + typ + "]:" + strings.Join(s, " "), nil
		}
	case "attrs":
		v, ok := c04NewRecord(f[1])
		if !ok {
			return "bad-op", nil
		}
		if len(f) > 2 {
			for _, kv := range strings.Split(f[2], ",") {
				p := strings.SplitN(kv, "=", 2)
				val, _ := unhx(p[1])
				if !c04SetField(v, p[0], val) {
					return "bad-op", nil
				}
			}
		}
		data, err := xml.Marshal(v.Addr().Interface())
		if err != nil {
			return "err", nil
		}
		t, err := c04ParseTree(data)
		if err != nil {
			return "err", nil
		}
		var s []string
		for _, a := range t.attrs {
			s = append(s, a.Name.Local+"="+hx(a.Value))
		}
		if len(s) == 0 {
			return "-", nil
		}
		return strings.Join(s, ","), nil
	}
	return "bad-op", nil
}

func c04ScanSig(kind string, want, got []osm.Object) string {
	nb := func(l []osm.Object) int {
		n := 0
		for _, o := range l {
			if _, ok := o.(*osm.Bounds); ok {
				n++
			}
		}
		return n
	}
	if nb(want) != nb(got) {
		return "xml-scan-differs-" + kind + "-bounds"
	}
	return "xml-scan-differs-" + kind
}

func truncate(s string, n int) string {
	if len(s) > n {
		return s[:n] + "…"
	}
	return s
}

var c04RecordFields = map[string][][2]string{ // Go field, kind
	"Node":             {{"ID", "int"}, {"Lat", "float"}, {"Lon", "float"}, {"User", "string"}, {"UserID", "int"}, {"Visible", "bool"}, {"Version", "int"}, {"ChangesetID", "int"}, {"Timestamp", "time"}, {"Committed", "ptime"}},
	"Way":              {{"ID", "int"}, {"User", "string"}, {"UserID", "int"}, {"Visible", "bool"}, {"Version", "int"}, {"ChangesetID", "int"}, {"Timestamp", "time"}, {"Committed", "ptime"}},
	"Relation":         {{"ID", "int"}, {"User", "string"}, {"UserID", "int"}, {"Visible", "bool"}, {"Version", "int"}, {"ChangesetID", "int"}, {"Timestamp", "time"}, {"Committed", "ptime"}},
	"WayNode":          {{"ID", "int"}, {"Version", "int"}, {"ChangesetID", "int"}, {"Lat", "float"}, {"Lon", "float"}},
	"Member":           {{"Type", "string"}, {"Ref", "int"}, {"Role", "string"}, {"Version", "int"}, {"ChangesetID", "int"}, {"Lat", "float"}, {"Lon", "float"}, {"Orientation", "int8"}},
	"Update":           {{"Index", "int"}, {"Version", "int"}, {"Timestamp", "time"}, {"ChangesetID", "int"}, {"Lat", "float"}, {"Lon", "float"}, {"Reverse", "bool"}},
	"Bounds":           {{"MinLat", "float"}, {"MaxLat", "float"}, {"MinLon", "float"}, {"MaxLon", "float"}},
	"Changeset":        {{"ID", "int"}, {"User", "string"}, {"UserID", "int"}, {"CreatedAt", "time"}, {"ClosedAt", "time"}, {"Open", "bool"}, {"ChangesCount", "int"}, {"MinLat", "float"}, {"MaxLat", "float"}, {"MinLon", "float"}, {"MaxLon", "float"}, {"CommentsCount", "int"}},
	"Tag":              {{"Key", "string"}, {"Value", "string"}},
	"ChangesetComment": {{"User", "string"}, {"UserID", "int"}, {"Timestamp", "time"}},
}

func c04RandText(r *Rng, kind string) string {
	zero := r.Chance(35)
	switch kind {
	case "int":
		if zero {
			return "0"
		}
		return strconv.Itoa(1 + r.Intn(100000))
	case "int8":
		if zero {
			return "0"
		}
		return []string{"1", "-1"}[r.Intn(2)]
	case "float":
		if zero {
			return "0"
		}
		return strconv.FormatFloat(xgFloat(r), 'g', -1, 64)
	case "string":
		if zero {
			return ""
		}
		return xgStr(r)
	case "bool":
		if zero {
			return "false"
		}
		return "true"
	case "time":
		if zero {
			return "0001-01-01T00:00:00Z"
		}
		return xgTime(r).Format(time.RFC3339Nano)
	case "ptime":
		if zero {
			return ""
		}
		return xgTime(r).Format(time.RFC3339Nano)
	}
	return ""
}

func c04Gen(r *Rng, tier string, emit func(string)) {
	n := 1500
	if tier == "thorough" {
		n = 10000
	}
	kinds := []string{"node", "way", "relation", "changeset", "note", "user", "bounds", "osm", "change", "diff"}
	for i := 0; i < n; i++ {
		for _, k := range kinds {
			emit(fmt.Sprintf("rt %s %d", k, r.U64()>>1))
		}
	}
	cnt := func() string { return fmt.Sprintf("%d.%d.%d.%d", r.Intn(2), r.Intn(3), r.Intn(3), r.Intn(3)) }
	cntOrNil := func() string {
		if r.Chance(25) {
			return "-"
		}
		return cnt()
	}
	for i := 0; i < n; i++ {
		emit(fmt.Sprintf("names osm %d %d %d %d %d %d %d", r.Intn(2), r.Intn(3), r.Intn(3), r.Intn(3), r.Intn(2), r.Intn(2), r.Intn(2)))
		emit(fmt.Sprintf("names change %s %s %s", cntOrNil(), cntOrNil(), cntOrNil()))
		el := []string{"0.1.0.0", "0.0.1.0", "0.0.0.1"}[r.Intn(3)]
		switch r.Intn(3) {
		case 0:
			emit(fmt.Sprintf("names action create %s - -", el))
		case 1:
			emit(fmt.Sprintf("names action modify - %s %s", el, el))
		default:
			emit(fmt.Sprintf("names action delete - %s %s", cntOrNil(), cntOrNil()))
		}
	}
	var types []string
	for t := range c04RecordFields {
		types = append(types, t)
	}
	sortStrings(types)
	for i := 0; i < 4*n; i++ {
		t := types[r.Intn(len(types))]
		var kv []string
		for _, fk := range c04RecordFields[t] {
			kv = append(kv, fk[0]+"="+hx(c04RandText(r, fk[1])))
		}
		emit("attrs " + t + " " + strings.Join(kv, ","))
	}
}

func sortStrings(s []string) {
	for i := 1; i < len(s); i++ {
		for j := i; j > 0 && s[j] < s[j-1]; j-- {
			s[j], s[j-1] = s[j-1], s[j]
		}
	}
}
