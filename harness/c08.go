package main

import (
	"bytes"
	"context"
	"fmt"
	"strconv"
	"strings"

	"github.com/paulmach/osm"
	"github.com/paulmach/osm/osmpbf"
)

// C08 — skip flags and filters select an unmodified subsequence. Op:
//
//	filt <procs> <skip NWR as 0/1 digits> <node pred> <way pred> <relation pred> FILE…
//	predicates: all | none | idmod.K.R | tags | ver.K | vis
func init() {
	register(&Prop{
		ID: "C08",
		Rule: "valid PBF files (as for C01, groups of up to 12 elements so that accept/reject runs of every shape occur) scanned under all 8 skip-flag combinations and deterministic predicates per element type (accept-all, reject-all, alternating by id, by tags, by version, by visibility), decoder counts 1..8; the filtered scan is compared with the model, with the filter of the implementation's own unfiltered scan, and every returned object is snapshotted when returned and compared at the end of the scan; " +
			"every fourth file with primitive groups holding a second and third element type (ways and relations taking turns in half of them); 8% of elements with 9..14 tags; negative and very large ids; " +
			"non-trivial = the unfiltered file has at least one element; distinct = distinct op line",
		Gen:  c08Gen,
		Exec: c08Exec,
		Class: func(op, out string) string {
			if strings.Count(out, " ") < 2 {
				return "trivial-empty-result"
			}
			return "filt"
		},
	})
}

type c08Pred func(id int64, version int, visible bool, tags osm.Tags) bool

func c08PredOf(spec string) c08Pred {
	p := strings.Split(spec, ".")
	switch p[0] {
	case "all":
		return func(int64, int, bool, osm.Tags) bool { return true }
	case "none":
		return func(int64, int, bool, osm.Tags) bool { return false }
	case "tags":
		return func(_ int64, _ int, _ bool, t osm.Tags) bool { return len(t) > 0 }
	case "vis":
		return func(_ int64, _ int, v bool, _ osm.Tags) bool { return v }
	case "ver":
		k, _ := strconv.Atoi(p[1])
		return func(_ int64, v int, _ bool, _ osm.Tags) bool { return v > k }
	case "idmod":
		k, _ := strconv.ParseInt(p[1], 10, 64)
		r, _ := strconv.ParseInt(p[2], 10, 64)
		return func(id int64, _ int, _ bool, _ osm.Tags) bool { return id%k == r }
	}
	return nil
}

func c08Keep(o osm.Object, skip string, pn, pw, pr c08Pred) bool {
	switch x := o.(type) {
	case *osm.Node:
		return skip[0] != '1' && pn(int64(x.ID), x.Version, x.Visible, x.Tags)
	case *osm.Way:
		return skip[1] != '1' && pw(int64(x.ID), x.Version, x.Visible, x.Tags)
	case *osm.Relation:
		return skip[2] != '1' && pr(int64(x.ID), x.Version, x.Visible, x.Tags)
	}
	return false
}

func c08Exec(op string) (string, *Violation) {
	f := fields(op)
	if f[0] != "filt" || len(f) < 6 || len(f[2]) != 3 {
		return "bad-op", nil
	}
	procs, _ := strconv.Atoi(f[1])
	skip := f[2]
	pn, pw, pr := c08PredOf(f[3]), c08PredOf(f[4]), c08PredOf(f[5])
	if pn == nil || pw == nil || pr == nil {
		return "bad-op", nil
	}
	pf, err := ParsePFile(f[6:])
	if err != nil {
		return "bad-op", nil
	}
	data := joinFrames(pf.Frames())

	// filtered scan, snapshotting every object at the moment it is returned
	s := osmpbf.New(context.Background(), bytes.NewReader(data), procs)
	s.SkipNodes, s.SkipWays, s.SkipRelations = skip[0] == '1', skip[1] == '1', skip[2] == '1'
	s.FilterNode = func(n *osm.Node) bool { return pn(int64(n.ID), n.Version, n.Visible, n.Tags) }
	s.FilterWay = func(w *osm.Way) bool { return pw(int64(w.ID), w.Version, w.Visible, w.Tags) }
	s.FilterRelation = func(r *osm.Relation) bool { return pr(int64(r.ID), r.Version, r.Visible, r.Tags) }
	h, herr := s.Header()
	var objs []osm.Object
	var snaps []string
	var serr error
	if herr == nil {
		for s.Scan() {
			o := s.Object()
			objs = append(objs, o)
			snaps = append(snaps, pObject(o))
		}
		serr = s.Err()
	} else {
		serr = herr
	}
	s.Close()
	line := pScanLine(h, objs, serr)
	if serr != nil {
		return line, &Violation{Signature: "pbf-valid-file-error", Text: "scanning a valid PBF file with filters ends in an error: " + serr.Error()}
	}
	for i, o := range objs {
		if now := pObject(o); now != snaps[i] {
			return line, &Violation{Signature: "pbf-returned-object-modified", Text: fmt.Sprintf("object %d was modified after the scanner returned it:\nwhen returned: %s\nat end of scan: %s", i, snaps[i], now)}
		}
	}
	// the implementation's own unfiltered scan, filtered here
	_, all, aerr := pbfScan(data, scanOpts{procs: procs})
	if aerr != nil {
		return line, &Violation{Signature: "pbf-valid-file-error", Text: "unfiltered scan error: " + aerr.Error()}
	}
	var want []string
	for _, o := range all {
		if c08Keep(o, skip, pn, pw, pr) {
			want = append(want, pObject(o))
		}
	}
	if strings.Join(want, " ") != strings.Join(snaps, " ") {
		k := 0
		for k < len(want) && k < len(snaps) && want[k] == snaps[k] {
			k++
		}
		w, g := "<nothing>", "<nothing>"
		if k < len(want) {
			w = want[k]
		}
		if k < len(snaps) {
			g = snaps[k]
		}
		return line, &Violation{Signature: "pbf-filter-not-subsequence", Text: fmt.Sprintf("the filtered scan is not the filter of the unfiltered scan (skip=%s node=%s way=%s relation=%s): item %d is %s, expected %s", skip, f[3], f[4], f[5], k, g, w)}
	}
	return line, nil
}

func c08Gen(r *Rng, tier string, emit func(string)) {
	n := 1200
	if tier == "thorough" {
		n = 8000
	}
	preds := func() string {
		switch r.Intn(8) {
		case 0:
			return "all"
		case 1:
			return "none"
		case 2, 3:
			k := 2 + r.Intn(3)
			return fmt.Sprintf("idmod.%d.%d", k, r.Intn(k))
		case 4:
			return "tags"
		case 5:
			return fmt.Sprintf("ver.%d", r.Intn(30))
		case 6:
			return "vis"
		}
		return "idmod.2.0"
	}
	for i := 0; i < n; i++ {
		pf := genPFile(r, 3, 12)
		if i%4 == 3 {
			mixGroups(r, pf, 4) // "for all files": groups holding more than one element type
		}
		skip := fmt.Sprintf("%d%d%d", r.Intn(4)/3, r.Intn(4)/3, r.Intn(4)/3)
		emit(fmt.Sprintf("filt %d %s %s %s %s %s", 1+r.Intn(8), skip, preds(), preds(), preds(), pf.Tokens()))
	}
}
