package main

import (
	"crypto/sha256"
	"encoding/hex"
	"fmt"
	"strings"
)

// Rng is splitmix64: every random choice of a run derives from one seed.
type Rng struct{ s uint64 }

// NewRng scrambles the seed first: with state = seed*gamma + c, the stream of seed k+1 would be the stream of
// seed k shifted by one position (splitmix64 advances its state by gamma), and sweeps over consecutive seeds would
// explore nearly the same cases.
func NewRng(seed uint64) *Rng {
	z := seed + 0x632BE59BD9B4E019
	z = (z ^ (z >> 30)) * 0xBF58476D1CE4E5B9
	z = (z ^ (z >> 27)) * 0x94D049BB133111EB
	return &Rng{s: z ^ (z >> 31)}
}

func (r *Rng) U64() uint64 {
	r.s += 0x9E3779B97F4A7C15
	z := r.s
	z = (z ^ (z >> 30)) * 0xBF58476D1CE4E5B9
	z = (z ^ (z >> 27)) * 0x94D049BB133111EB
	return z ^ (z >> 31)
}

// Intn returns a value in [0,n).
func (r *Rng) Intn(n int) int {
	if n <= 0 {
		return 0
	}
	return int(r.U64() % uint64(n))
}
func (r *Rng) I64n(n int64) int64 {
	if n <= 0 {
		return 0
	}
	return int64(r.U64() % uint64(n))
}
func (r *Rng) Bool() bool              { return r.U64()&1 == 1 }
func (r *Rng) Chance(p int) bool       { return r.Intn(100) < p } // p percent
func (r *Rng) Pick(ss []string) string { return ss[r.Intn(len(ss))] }
func (r *Rng) Perm(n int) []int {
	p := make([]int, n)
	for i := range p {
		p[i] = i
	}
	for i := n - 1; i > 0; i-- {
		j := r.Intn(i + 1)
		p[i], p[j] = p[j], p[i]
	}
	return p
}

// Fork derives an independent stream (so that inserting a choice in one
// generator does not shift all others).
func (r *Rng) Fork() *Rng { return &Rng{s: r.U64()} }

func hashStr(s string) string {
	h := sha256.Sum256([]byte(s))
	return string(h[:12])
}

// hx hex-encodes a string for the line protocol ("-" = empty).
func hx(s string) string {
	if s == "" {
		return "-"
	}
	return hex.EncodeToString([]byte(s))
}

func unhx(s string) (string, error) {
	if s == "-" {
		return "", nil
	}
	b, err := hex.DecodeString(s)
	return string(b), err
}

func fields(op string) []string { return strings.Fields(op) }

func sprintf(f string, a ...interface{}) string { return fmt.Sprintf(f, a...) }
