#!/bin/sh
# dev/mutant.sh Cxx patch.diff [tier]  — apply a patch to a scratch worktree of /repo, run the check against it, clean up.
# Not a registered command; scratch copies live under /tmp and are removed at once.
ROOT="$(cd "$(dirname "$0")/.." && pwd)"
P="$1"; PATCH="$(readlink -f "$2")"; TIER="${3:-quick}"
WT=/tmp/wt-mut-$$
git -C /repo worktree add -q --detach "$WT" HEAD || exit 2
if ! git -C "$WT" apply "$PATCH"; then echo "PATCH DOES NOT APPLY"; git -C /repo worktree remove --force "$WT"; exit 2; fi
(cd "$WT" && GOFLAGS=-mod=mod GOPROXY=off go build ./... ) || echo "MUTANT DOES NOT BUILD"
VERIF_EVIDENCE_DIR=/tmp/mut-evidence-$$ VERIF_REPLAY_DIR=/tmp/mut-replays-$$ VERIF_REPO="$WT" "$ROOT/check" "$P" --tier "$TIER"; RC=$?
git -C /repo worktree remove --force "$WT"
rm -rf /tmp/mut-evidence-$$; [ -n "$KEEP_REPLAY" ] || rm -rf /tmp/mut-replays-$$
# restore Gen for the real tree
"$ROOT/.build/extract" -repo /repo -out "$ROOT"/lean/OsmVerif/Gen >/dev/null
echo "mutant exit=$RC"
exit $RC
