#!/bin/sh
# dev/mkmutant.sh Cxx name file 'sed-expr'  -> dev/mutants/Cxx/name.diff
P="$1"; N="$2"; F="$3"; E="$4"
mkdir -p /verif/dev/mutants/$P
sed "$E" "/repo/$F" > /tmp/mk.$$ 
diff -u "/repo/$F" /tmp/mk.$$ | sed "1s|.*|--- a/$F|; 2s|.*|+++ b/$F|" > /verif/dev/mutants/$P/$N.diff
rm -f /tmp/mk.$$
if [ ! -s /verif/dev/mutants/$P/$N.diff ]; then echo "EMPTY DIFF for $N"; rm /verif/dev/mutants/$P/$N.diff; exit 1; fi
