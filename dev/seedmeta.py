#!/usr/bin/env python3
# dev/seedmeta.py <seed dir name> "<pkgs>" "<check result>" [round] — record what was confirmed for a seeded change.
import json, sys
name, pkgs, res = sys.argv[1:4]
rnd = int(sys.argv[4]) if len(sys.argv) > 4 else 2
p = "/verif/seeded/%s/meta.json" % name
m = json.load(open(p))
m["verified"] = {"by": "dev/seedcheck.sh in a scratch worktree of /repo",
  "confirmed": "patch applies; go build ./... ok; existing package tests (%s) pass with the change; demonstration passes on the unchanged tree and fails with the change" % pkgs,
  "check_result": res}
m["round"] = rnd
json.dump(m, open(p, "w"), indent=1)
