#!/bin/sh
# dev/seedone.sh <seed-name> — run the property's quick check against one stored seeded change
ROOT="$(cd "$(dirname "$0")/.." && pwd)"
N="$1"; P=$(echo $N | cut -d- -f1); WT=/tmp/wt-seed-$$
git -C /repo worktree add -q --detach "$WT" HEAD || exit 2
git -C "$WT" apply "$ROOT/seeded/$N/patch.diff" || { git -C /repo worktree remove --force "$WT"; exit 2; }
VERIF_EVIDENCE_DIR=/tmp/mut-evidence-$$ VERIF_REPLAY_DIR=/tmp/mut-replays-$$ VERIF_REPO="$WT" timeout 1500 "$ROOT/check" "$P" --tier quick 2>&1 | grep -E "direct oracle|^VIOLATION|quick:|broken" | cut -c1-400 | head -8
git -C /repo worktree remove --force "$WT"
"$ROOT/.build/extract" -repo /repo -out "$ROOT"/lean/OsmVerif/Gen >/dev/null
rm -rf /tmp/mut-evidence-$$ /tmp/mut-replays-$$
