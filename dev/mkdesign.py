#!/usr/bin/env python3
"""dev/mkdesign.py — regenerate the generated sections of DESIGN.md from checklib/props.py, properties.jsonl,
known-findings.json, evidence/*.json, seeded/*/meta.json, dev/mutant-results.tsv and /repo's git log."""
import json, os, re, subprocess, sys, glob, textwrap
V = "/verif"
sys.path.insert(0, V + "/checklib")
from props import PROPS
props = {json.loads(l)["id"]: json.loads(l) for l in open(V + "/properties.jsonl")}

def wrap(t, ind=""):
    return "\n".join(textwrap.wrap(t, 100, initial_indent=ind, subsequent_indent=ind))

def per_property():
    out = []
    for pid in sorted(PROPS):
        p, q = PROPS[pid], props[pid]
        partial = "PARTIAL" in p["level_text"] or "Partial:" in p["level_text"]
        out.append("### %s — %s" % (pid, q["title"]))
        out.append("")
        out.append("*Level: proof%s.* %s" % (" (partial: see text)" if partial else "", wrap(p["technique"])))
        out.append("")
        out.append(wrap(p["level_text"]))
        out.append("")
        if p.get("level_note"):
            out.append(wrap(p["level_note"]))
            out.append("")
        out.append("Theorems required (`lean/OsmVerif/Props/%s`): %s." % (", ".join(x.split(".")[-1] + ".lean" for x in p["props"]),
                   ", ".join("`%s`" % t for t in p["required_theorems"])))
        extra = []
        if p.get("gens"):
            extra.append("regenerated: " + ", ".join("`Gen/%s.lean`" % g for g in p["gens"]))
        if p.get("model_is_spec"):
            extra.append("model is the specification for ops " + ", ".join("`%s…`" % o.strip() for o in p["model_is_spec"]))
        if p.get("race"):
            extra.append("harness built with `-race`")
        if p.get("assumptions"):
            extra.append("assumptions: " + "; ".join(p["assumptions"]))
        out.append(wrap("Tie — " + "; ".join(extra) + "."))
        out.append("")
    return "\n".join(out)

def findings():
    d = json.load(open(V + "/known-findings.json"))["findings"]
    rows = ["| property | signature | fixed by | what failed |", "|---|---|---|---|"]
    for f in d:
        if f["status"] != "fixed":
            continue
        t = re.sub(r"^fixed: property=\S+ \S+ ", "", f["text"]).replace("|", "\\|")
        rows.append("| %s | `%s` | %s | %s |" % (f["property"], f["signature"], f.get("commit", ""), t))
    return "\n".join(rows)

def sizes():
    rows = ["| | theorems | cases | distinct non-trivial | model lines compared | wall |", "|---|---|---|---|---|---|"]
    for pid in sorted(PROPS):
        fn = V + "/evidence/%s.json" % pid
        if not os.path.exists(fn):
            continue
        e = json.load(open(fn)); c = e["coverage"]
        rows.append("| %s (%s) | %d/%d | %d | %d | %d | %.0f s |" % (pid, e["tier"], c["discharged"], c["obligations"], c["evaluations"],
                    c["distinct_nontrivial"], c.get("model_lines_compared", 0), e["wall_s"]))
    return "\n".join(rows)

def seeds():
    last = {}
    fn = V + "/dev/seed-results.tsv"
    if os.path.exists(fn):
        for l in open(fn):
            f = l.rstrip("\n").split("\t")
            if len(f) == 2:
                last[f[0]] = f[1]
    rows = ["| seed | change | needs | result (history) | last re-validation (`dev/seeds-all.sh`, quick tier) |", "|---|---|---|---|---|"]
    for d in sorted(glob.glob(V + "/seeded/*/meta.json")):
        m = json.load(open(d))
        name = os.path.basename(os.path.dirname(d))
        res = (m.get("verified") or {}).get("check_result", "")
        esc = lambda t: str(t).replace("|", "\\|").replace("\n", " ")
        lv = last.get(name, "")
        if "no-failing-input-found" in lv:
            lv = "reported, no-failing-input-found"
        elif lv.startswith("VIOLATION"):
            mm = re.search(r"replay=\S*?/([^/ ]+)\.json", lv)
            lv = "reported with failing input (`%s`)" % (mm.group(1) if mm else "replay")
        rows.append("| `%s` | %s | %s | %s | %s |" % (name, esc(m.get("summary", ""))[:400], esc(m.get("needs", ""))[:400], esc(res)[:600], lv))
    return "\n".join(rows)

def mutants():
    fn = V + "/dev/mutant-results.tsv"
    if not os.path.exists(fn):
        return "(no sweep recorded yet)"
    rows = ["| property | mutant | result |", "|---|---|---|"]
    notes = json.load(open(V + "/dev/mutant-notes.json")) if os.path.exists(V + "/dev/mutant-notes.json") else {}
    for l in open(fn):
        f = l.rstrip("\n").split("\t")
        if len(f) < 4:
            continue
        pid, name, rc, v = f
        if "no-failing-input-found" in v:
            r = "obligation/correspondence broken, no-failing-input-found"
        elif v.startswith("VIOLATION"):
            m = re.search(r"replay=\S*?/([^/ ]+)\.json", v)
            r = "reported with failing input (`%s`)" % (m.group(1) if m else "replay")
        elif rc == "0":
            r = "not reported"
        else:
            r = v or ("exit " + rc)
        n = notes.get(pid + "/" + name)
        if n:
            r += " — " + n
        rows.append("| %s | `%s` | %s |" % (pid, name, r))
    return "\n".join(rows)

def fixes():
    log = subprocess.run(["git", "-C", "/repo", "log", "--reverse", "--format=%h %s"], capture_output=True, text=True).stdout
    return "\n".join("* `%s` %s" % tuple(l.split(" ", 1)) for l in log.split("\n") if " fix:" in l)

s = open(V + "/DESIGN.md").read()
for tag, fn in (("PER-PROPERTY", per_property), ("FINDINGS", findings), ("SIZES", sizes), ("SEEDS", seeds), ("MUTANTS", mutants), ("FIXES", fixes)):
    a, b = "<!-- BEGIN:%s -->" % tag, "<!-- END:%s -->" % tag
    i, j = s.index(a) + len(a), s.index(b)
    s = s[:i] + "\n" + fn() + "\n" + s[j:]
open(V + "/DESIGN.md", "w").write(s)
print("DESIGN.md regenerated")
