import json,sys
pid=sys.argv[1]
pkgs=sys.argv[2]
for l in open('/verif/properties.jsonl'):
    p=json.loads(l)
    if p['id']==pid: break
print(f"""You are helping test a verification effort for the Go library paulmach/osm (OpenStreetMap data library). Your job: write ONE realistic code change (a "seeded defect") to the library that BREAKS the semantic property below, while the code still compiles and the library's existing test suite still passes.

Work ONLY inside the git worktree /tmp/seed-{pid} (a scratch copy of the repository; do not touch /repo or /verif, and do not read anything under /verif). Put your deliverables in /tmp/seed-{pid}-out/.

The property (also in /tmp/seed-{pid}-out/PROPERTY.txt):
{pid} — {p['title']}.
{p['statement']}
Quantifier: {p['quantifier']['text']}
Relevant files: {', '.join(p['anchors']['files'])}

Requirements for the change:
- It must look like a plausible maintainer edit (refactor, "optimisation", off-by-one, wrong constant, swapped operands, reordered statements…), small (a few lines), NOT a comment saying it is a bug.
- It must need something SPECIFIC to manifest: an unusual input, a boundary value, a particular multi-step sequence of operations, a particular interleaving or fault, or two cooperating sites that each look fine alone — NOT something that ordinary use or the existing tests would expose at once.
- With the change applied: `cd /tmp/seed-{pid} && go build ./... && go test -count=1 {pkgs}` must still succeed (environment: export GOFLAGS=-mod=mod GOPROXY=off GOSUMDB=off; there is no network). Do not edit existing test files. (The osmpbf package tests are slow/failing for unrelated reasons: do not run `./...`.)
- Write a demonstration: a small Go test file inside the worktree (name it seeded_demo_test.go in the relevant package directory) that FAILS with your change and PASSES on the unchanged code. Verify both: run it with the change, then `git stash` the change (keep the demo file untracked), run it again, then `git stash pop`.

Deliverables in /tmp/seed-{pid}-out/:
- patch.diff : output of `git diff` for the library change only (not including the demo file), applicable with `git apply` from the repository root.
- the demonstration file (copy it there, and note in meta.json which package directory it belongs to), and
- meta.json : {{"property":"{pid}","summary":"<one sentence what was changed>","needs":"<what specific input/sequence is needed for it to manifest>","demo_dir":"<package dir of the demo test relative to repo root>","commands":["<commands you ran and their outcome>"]}}
Finish by replying with a 5-line summary (what you changed, what is needed to manifest, and confirmation of the four runs: build ok, existing tests pass with change, demo fails with change, demo passes without).""")
