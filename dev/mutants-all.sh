#!/bin/sh
# dev/mutants-all.sh [Cxx …] — run every stored mutant through its property's check (scratch worktrees under /tmp),
# one line per mutant in dev/mutant-results.tsv: property, mutant, exit, verdict line. Not a registered command.
ROOT="$(cd "$(dirname "$0")/.." && pwd)"
OUT=$ROOT/dev/mutant-results.tsv
PROPS="${@:-$(ls "$ROOT/dev/mutants")}"
# SHARD=i/n runs every n-th mutant starting with the i-th
SI=${SHARD%/*}; SN=${SHARD#*/}; K=0
for P in $PROPS; do
  for M in $ROOT/dev/mutants/$P/*.diff; do
    K=$((K+1))
    if [ -n "$SHARD" ] && [ $((K % SN)) -ne $((SI % SN)) ]; then continue; fi
    N=$(basename $M .diff)
    grep -q "^$P	$N	" $OUT 2>/dev/null && continue
    LOG=$(timeout 1500 sh $ROOT/dev/mutant.sh $P $M 2>&1)
    RC=$(echo "$LOG" | grep -o "mutant exit=[0-9]*" | tail -1 | cut -d= -f2)
    V=$(echo "$LOG" | grep -E "^VIOLATION|PATCH DOES NOT APPLY|MUTANT DOES NOT BUILD" | head -1 | sed 's|/tmp/mut-replays-[0-9]*/||')
    printf "%s\t%s\t%s\t%s\n" "$P" "$N" "${RC:-timeout}" "$V" >> $OUT
  done
done
git -C /repo worktree prune
