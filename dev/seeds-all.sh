#!/bin/sh
# dev/seeds-all.sh — apply every stored seeded change to a scratch worktree and run its property's quick check;
# one line per seed in dev/seed-results.tsv. Not a registered command.
ROOT="$(cd "$(dirname "$0")/.." && pwd)"
OUT=$ROOT/dev/seed-results.tsv
: > $OUT
# SHARD=i/n runs every n-th seed starting with the i-th (several shards can run side by side, each in its own copy of /verif)
SI=${SHARD%/*}; SN=${SHARD#*/}; K=0
for D in $ROOT/seeded/*/; do
  K=$((K+1))
  if [ -n "$SHARD" ] && [ $((K % SN)) -ne $((SI % SN)) ]; then continue; fi
  N=$(basename $D); P=$(echo $N | cut -d- -f1)
  WT=/tmp/wt-seed-$$
  git -C /repo worktree add -q --detach "$WT" HEAD || exit 2
  if git -C "$WT" apply "$D/patch.diff" 2>/dev/null; then
    LOG=$(VERIF_EVIDENCE_DIR=/tmp/mut-evidence-$$ VERIF_REPLAY_DIR=/tmp/mut-replays-$$ VERIF_REPO="$WT" timeout 1500 "$ROOT/check" "$P" --tier quick 2>&1)
    V=$(echo "$LOG" | grep -E "^VIOLATION" | head -1 | sed 's|/tmp/mut-replays-[0-9]*/||')
    printf "%s\t%s\n" "$N" "${V:-NOT REPORTED}" >> $OUT
  else
    printf "%s\t%s\n" "$N" "PATCH DOES NOT APPLY (tree changed since the seed was made)" >> $OUT
  fi
  git -C /repo worktree remove --force "$WT"
done
"$ROOT/.build/extract" -repo /repo -out "$ROOT"/lean/OsmVerif/Gen >/dev/null
rm -rf /tmp/mut-evidence-$$ /tmp/mut-replays-$$
git -C /repo worktree prune
