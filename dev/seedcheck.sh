#!/bin/sh
# dev/seedcheck.sh Cxx [name] "<pkg test args>"  — confirm a seeded change from /tmp/seed-Cxx-out and run the check against it.
ROOT="$(cd "$(dirname "$0")/.." && pwd)"
P="$1"; NAME="${2:-$1-agent1}"; PKGS="${3:-.}"
OUT=/tmp/seed-$P-out
export GOFLAGS=-mod=mod GOPROXY=off GOSUMDB=off GOTOOLCHAIN=local
DEMO=$(ls $OUT/*_test.go | head -1)
DDIR=$(python3 -c "import json;print(json.load(open('$OUT/meta.json')).get('demo_dir','.'))")
WT=/tmp/wt-seed-$$
git -C /repo worktree add -q --detach "$WT" HEAD || exit 2
cp "$DEMO" "$WT/$DDIR/"
DN=$(basename $DEMO)
echo "--- demo on unchanged code (must pass)"
(cd "$WT/$DDIR" && go test -count=1 -run 'Seed|Demo' . 2>&1 | tail -3)
echo "--- apply patch"
git -C "$WT" apply "$OUT/patch.diff" || { echo "PATCH DOES NOT APPLY"; git -C /repo worktree remove --force "$WT"; exit 2; }
echo "--- build + existing tests with change (must pass)"
rm "$WT/$DDIR/$DN"
(cd "$WT" && go build ./... && go test -count=1 $PKGS 2>&1 | tail -4)
cp "$DEMO" "$WT/$DDIR/"
echo "--- demo with change (must fail)"
(cd "$WT/$DDIR" && go test -count=1 -run 'Seed|Demo' . 2>&1 | tail -4)
rm "$WT/$DDIR/$DN"
echo "--- check against the change"
VERIF_EVIDENCE_DIR=/tmp/mut-evidence-$$ VERIF_REPLAY_DIR=/tmp/mut-replays-$$ VERIF_REPO="$WT" "$ROOT/check" "$P" --tier quick 2>&1 | grep -E "direct oracle|^VIOLATION|quick:|broken" | cut -c1-400
git -C /repo worktree remove --force "$WT"
"$ROOT/.build/extract" -repo /repo -out "$ROOT/lean/OsmVerif/Gen" >/dev/null
mkdir -p $ROOT/seeded/$NAME
cp $OUT/patch.diff $OUT/meta.json $DEMO $ROOT/seeded/$NAME/
rm -rf /tmp/mut-evidence-$$ /tmp/mut-replays-$$
