package main

import (
	"go/ast"
	"go/token"
	"sort"
	"strconv"
	"strings"
)

// ---- Gen/OsmApi: per exported *Datasource method the URL recipe, option kind and result selector;
// getFromAPI's status chain; facts about the single GET and the limiter.

func init() { gens["OsmApi"] = genOsmApi }

var httpStatus = map[string]int{"http.StatusOK": 200, "http.StatusNotFound": 404, "http.StatusForbidden": 403, "http.StatusGone": 410,
	"http.StatusRequestURITooLong": 414, "http.StatusUnauthorized": 401, "http.StatusBadRequest": 400, "http.StatusInternalServerError": 500,
	"http.StatusTooManyRequests": 429, "http.StatusConflict": 409, "http.StatusNotModified": 304}

// concatParts flattens a + b + c into its string literals and its other operands, in order.
func concatParts(e ast.Expr) (lits, ops []string) {
	switch x := e.(type) {
	case *ast.BinaryExpr:
		if x.Op == token.ADD {
			l1, o1 := concatParts(x.X)
			l2, o2 := concatParts(x.Y)
			return append(l1, l2...), append(o1, o2...)
		}
	case *ast.BasicLit:
		if x.Kind == token.STRING {
			sv, _ := strconv.Unquote(x.Value)
			return []string{sv}, nil
		}
	case *ast.ParenExpr:
		return concatParts(x.X)
	}
	return nil, []string{exprText(e)}
}

func genOsmApi(repo string) *genFile {
	g := &genFile{name: "OsmApi"}
	p, err := loadPkg(repo + "/osmapi")
	if err != nil {
		g.fail("cannot load package osmapi: %v", err)
		return g
	}
	g.pf("structure Endpoint where\n  name : String\n  recipe : String        -- `sprintf` or `concat`\n  format : String        -- format literal, or the literal pieces of the concatenation joined by `|`\n  args : List String     -- argument expressions after the format\n  option : String        -- FeatureOption | NotesOption | none\n  selector : String      -- what is returned on success\n  guard : String         -- length guard before the selector, or \"\"\n  deriving DecidableEq, Repr\n\n")

	type ep struct {
		name, recipe, format, option, selector, guard string
		args                                          []string
	}
	var eps []ep
	// helper: methods that delegate their fetch to another method (getChangeset)
	var names []string
	decls := map[string]*ast.FuncDecl{}
	for _, fn := range p.sortedFiles() {
		for _, d := range p.files[fn].Decls {
			fd, ok := d.(*ast.FuncDecl)
			if !ok || fd.Recv == nil || typeName(fd.Recv.List[0].Type) != "Datasource" {
				continue
			}
			decls[fd.Name.Name] = fd
			if fd.Name.IsExported() {
				names = append(names, fd.Name.Name)
			}
		}
	}
	sort.Strings(names)
	callsFetch := func(fd *ast.FuncDecl) (direct bool, via string) {
		ast.Inspect(fd.Body, func(n ast.Node) bool {
			c, ok := n.(*ast.CallExpr)
			if !ok {
				return true
			}
			t := exprText(c.Fun)
			if t == "ds.getFromAPI" {
				direct = true
			} else if strings.HasPrefix(t, "ds.get") && t != "ds.getFromAPI" {
				via = strings.TrimPrefix(t, "ds.")
			}
			return true
		})
		return
	}
	for _, n := range names {
		fd := decls[n]
		direct, via := callsFetch(fd)
		if !direct && via == "" {
			continue // NotFound, ...
		}
		e := ep{name: n, option: "none"}
		// option kind from the variadic parameter
		for _, f := range fd.Type.Params.List {
			if el, ok := f.Type.(*ast.Ellipsis); ok {
				e.option = typeName(el.Elt)
			}
		}
		// URL recipe: first assignment to `url`
		ast.Inspect(fd.Body, func(nd ast.Node) bool {
			as, ok := nd.(*ast.AssignStmt)
			if !ok || len(as.Lhs) != 1 || exprText(as.Lhs[0]) != "url" || e.recipe != "" && as.Tok == token.DEFINE {
				return true
			}
			if as.Tok == token.DEFINE {
				if c, ok := as.Rhs[0].(*ast.CallExpr); ok && exprText(c.Fun) == "fmt.Sprintf" {
					e.recipe = "sprintf"
					if lit, ok := c.Args[0].(*ast.BasicLit); ok {
						e.format, _ = strconv.Unquote(lit.Value)
					}
					for _, a := range c.Args[1:] {
						e.args = append(e.args, exprText(a))
					}
				} else {
					e.recipe = "concat"
					lits, ops := concatParts(as.Rhs[0])
					e.format = strings.Join(lits, "|")
					e.args = ops
				}
			} else if as.Tok == token.ADD_ASSIGN {
				lits, ops := concatParts(as.Rhs[0])
				e.args = append(e.args, "+=")
				for _, l := range lits {
					e.args = append(e.args, "lit:"+l)
				}
				e.args = append(e.args, ops...)
			}
			return true
		})
		// selector and guard: in this method, or in the delegate
		body := fd
		if !direct {
			body = decls[via]
		}
		if body == nil {
			g.fail("%s: delegate %s not found", n, via)
			continue
		}
		var last *ast.ReturnStmt
		for _, st := range body.Body.List {
			if r, ok := st.(*ast.ReturnStmt); ok {
				last = r
			}
			if is, ok := st.(*ast.IfStmt); ok && is.Init != nil {
				if as, ok := is.Init.(*ast.AssignStmt); ok && strings.HasPrefix(exprText(as.Rhs[0]), "len(") {
					e.guard = exprText(as.Rhs[0]) + " " + strings.TrimPrefix(exprText(is.Cond), "l ")
				}
			}
		}
		if last != nil && len(last.Results) >= 1 {
			e.selector = exprText(last.Results[0])
		}
		if e.recipe == "" {
			g.fail("%s: no url recipe found", n)
		}
		eps = append(eps, e)
	}
	g.pf("def endpoints : List Endpoint := [\n")
	for i, e := range eps {
		sep := ","
		if i == len(eps)-1 {
			sep = ""
		}
		g.pf("  { name := %s, recipe := %s, format := %s, args := %s, option := %s, selector := %s, guard := %s }%s\n",
			leanStr(e.name), leanStr(e.recipe), leanStr(e.format), leanStrList(e.args), leanStr(e.option), leanStr(e.selector), leanStr(e.guard), sep)
	}
	g.pf("]\n\n")

	// getFromAPI: status chain, number of Do calls, limiter position
	fd := decls["getFromAPI"]
	if fd == nil {
		g.fail("getFromAPI not found")
		return g
	}
	type st struct {
		op   string
		code int
		err  string
	}
	var chain []st
	doCalls, doInLoop, waitBeforeDo := 0, false, false
	seenWait := false
	var walk func(n ast.Node, inLoop bool)
	walk = func(n ast.Node, inLoop bool) {
		ast.Inspect(n, func(x ast.Node) bool {
			switch y := x.(type) {
			case *ast.ForStmt:
				walk(y.Body, true)
				return false
			case *ast.RangeStmt:
				walk(y.Body, true)
				return false
			case *ast.CallExpr:
				t := exprText(y.Fun)
				if t == "ds.Limiter.Wait" {
					seenWait = true
				}
				if t == "client.Do" {
					doCalls++
					if inLoop {
						doInLoop = true
					}
					if seenWait {
						waitBeforeDo = true
					}
				}
			}
			return true
		})
	}
	walk(fd.Body, false)
	for _, s := range fd.Body.List {
		is, ok := s.(*ast.IfStmt)
		if !ok {
			continue
		}
		be, ok := is.Cond.(*ast.BinaryExpr)
		if !ok || exprText(be.X) != "resp.StatusCode" {
			continue
		}
		code, known := httpStatus[exprText(be.Y)]
		if !known {
			g.fail("%s: unknown status constant %s", p.pos(is), exprText(be.Y))
			continue
		}
		errT := "?"
		ast.Inspect(is.Body, func(x ast.Node) bool {
			if cl, ok := x.(*ast.CompositeLit); ok {
				errT = typeName(cl.Type)
				return false
			}
			return true
		})
		chain = append(chain, st{be.Op.String(), code, errT})
	}
	g.pf("/-- getFromAPI: `if resp.StatusCode <op> <code> { return &<err>{…} }` in source order; falling through all of them decodes the body -/\n")
	g.pf("def statusChain : List (String × Nat × String) := [")
	for i, c := range chain {
		if i > 0 {
			g.pf(", ")
		}
		g.pf("(%s, %d, %s)", leanStr(c.op), c.code, leanStr(c.err))
	}
	g.pf("]\n\n")
	g.pf("def doCalls : Nat := %d\ndef doInLoop : Bool := %v\ndef limiterWaitBeforeDo : Bool := %v\n", doCalls, doInLoop, waitBeforeDo)
	{
		var out []string
		p.flat(fd.Body, &out)
		g.pf("def getFromAPIBody : List String := %s\n", leanStrList(out))
	}
	// NotFound: which error type it tests
	nf := "?"
	if d := decls["NotFound"]; d != nil {
		ast.Inspect(d.Body, func(x ast.Node) bool {
			if ta, ok := x.(*ast.TypeAssertExpr); ok {
				nf = typeName(ta.Type)
			}
			return true
		})
	}
	g.pf("def notFoundTests : String := %s\n", leanStr(nf))
	// base URL constant
	for _, fn := range p.sortedFiles() {
		for _, d := range p.files[fn].Decls {
			if gd, ok := d.(*ast.GenDecl); ok && gd.Tok == token.CONST {
				for _, s := range gd.Specs {
					vs := s.(*ast.ValueSpec)
					for i, n := range vs.Names {
						if n.Name == "BaseURL" && i < len(vs.Values) {
							if lit, ok := vs.Values[i].(*ast.BasicLit); ok {
								sv, _ := strconv.Unquote(lit.Value)
								g.pf("def BaseURL : String := %s\n", leanStr(sv))
							}
						}
					}
				}
			}
		}
	}
	return g
}
