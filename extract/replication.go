package main

import (
	"go/ast"
	"go/token"
	"strconv"
)

// ---- Gen/Replication: URL recipes, suffixes, time formats, minimum constants, stater minimums.

func init() { gens["Replication"] = genReplication }

func genReplication(repo string) *genFile {
	g := &genFile{name: "Replication"}
	p, err := loadPkg(repo + "/replication")
	if err != nil {
		g.fail("cannot load package replication: %v", err)
		return g
	}
	// fmt.Sprintf recipe of a URL builder: format literal + argument expressions
	recipe := func(recv, name string) (string, []string) {
		fd := p.funcDecl(recv, name)
		if fd == nil {
			g.fail("%s.%s not found", recv, name)
			return "", nil
		}
		var format string
		var args []string
		ast.Inspect(fd.Body, func(n ast.Node) bool {
			c, ok := n.(*ast.CallExpr)
			if !ok || exprText(c.Fun) != "fmt.Sprintf" || len(c.Args) == 0 {
				return true
			}
			if lit, ok := c.Args[0].(*ast.BasicLit); ok && lit.Kind == token.STRING {
				format, _ = strconv.Unquote(lit.Value)
				for _, a := range c.Args[1:] {
					args = append(args, exprText(a))
				}
			}
			return true
		})
		if format == "" {
			g.fail("%s.%s: no fmt.Sprintf with a literal format", recv, name)
		}
		return format, args
	}
	f1, a1 := recipe("Datasource", "baseSeqURL")
	f2, a2 := recipe("Datasource", "baseChangesetURL")
	g.pf("def baseSeqURLFormat : String := %s\ndef baseSeqURLArgs : List String := %s\n", leanStr(f1), leanStrList(a1))
	g.pf("def baseChangesetURLFormat : String := %s\ndef baseChangesetURLArgs : List String := %s\n\n", leanStr(f2), leanStrList(a2))

	// string literals concatenated / formatted in the fetchers
	lits := func(recv, name string) []string {
		fd := p.funcDecl(recv, name)
		if fd == nil {
			g.fail("%s.%s not found", recv, name)
			return nil
		}
		var out []string
		ast.Inspect(fd.Body, func(n ast.Node) bool {
			if lit, ok := n.(*ast.BasicLit); ok && lit.Kind == token.STRING {
				s, _ := strconv.Unquote(lit.Value)
				out = append(out, s)
			}
			return true
		})
		return out
	}
	g.pf("def fetchStateLiterals : List String := %s\n", leanStrList(lits("Datasource", "fetchState")))
	g.pf("def fetchChangesetStateLiterals : List String := %s\n", leanStrList(lits("Datasource", "fetchChangesetState")))
	g.pf("def changeURLLiterals : List String := %s\n", leanStrList(lits("Datasource", "changeURL")))
	g.pf("def changesetReaderLiterals : List String := %s\n\n", leanStrList(lits("Datasource", "changesetReader")))

	// Dir() of each sequence type
	for _, t := range []string{"MinuteSeqNum", "HourSeqNum", "DaySeqNum", "ChangesetSeqNum"} {
		l := lits(t, "Dir")
		d := ""
		if len(l) == 1 {
			d = l[0]
		} else {
			g.fail("%s.Dir: expected one string literal", t)
		}
		g.pf("def dir%s : String := %s\n", t, leanStr(d))
	}
	g.pf("\n")

	// timeFormats, constants
	for _, fn := range p.sortedFiles() {
		for _, d := range p.files[fn].Decls {
			gd, ok := d.(*ast.GenDecl)
			if !ok {
				continue
			}
			for _, s := range gd.Specs {
				vs, ok := s.(*ast.ValueSpec)
				if !ok {
					continue
				}
				for i, n := range vs.Names {
					if i >= len(vs.Values) {
						continue
					}
					switch n.Name {
					case "timeFormats":
						var fs []string
						if cl, ok := vs.Values[i].(*ast.CompositeLit); ok {
							for _, e := range cl.Elts {
								if lit, ok := e.(*ast.BasicLit); ok {
									sv, _ := strconv.Unquote(lit.Value)
									fs = append(fs, sv)
								}
							}
						}
						g.pf("def timeFormats : List String := %s\n", leanStrList(fs))
					case "minMinute", "minHour", "minDay", "minChangeset":
						if lit, ok := vs.Values[i].(*ast.BasicLit); ok {
							g.pf("def %s : Nat := %s\n", n.Name, lit.Value)
						}
					case "BaseURL":
						if lit, ok := vs.Values[i].(*ast.BasicLit); ok {
							sv, _ := strconv.Unquote(lit.Value)
							g.pf("def BaseURL : String := %s\n", leanStr(sv))
						}
					}
				}
			}
		}
	}
	// which minimum each *StateAt hands to the search
	for _, k := range []string{"Minute", "Hour", "Day", "Changeset"} {
		fd := p.funcDecl("Datasource", k+"StateAt")
		min := ""
		if fd != nil {
			ast.Inspect(fd.Body, func(n ast.Node) bool {
				kv, ok := n.(*ast.KeyValueExpr)
				if ok && exprText(kv.Key) == "Min" {
					min = exprText(kv.Value)
				}
				return true
			})
		}
		if min == "" {
			g.fail("%sStateAt: stater Min not found", k)
		}
		g.pf("def stateAtMin%s : String := %s\n", k, leanStr(min))
	}
	// the off-by-one rule of fetchChangesetState: statements `s.SeqNum++` under n == 0, else `s.SeqNum = uint64(n)`
	rule := "unknown"
	if fd := p.funcDecl("Datasource", "fetchChangesetState"); fd != nil {
		ast.Inspect(fd.Body, func(n ast.Node) bool {
			is, ok := n.(*ast.IfStmt)
			if !ok || exprText(is.Cond) != "n == 0" || is.Else == nil {
				return true
			}
			th, el := "", ""
			if len(is.Body.List) == 1 {
				if inc, ok := is.Body.List[0].(*ast.IncDecStmt); ok && inc.Tok == token.INC {
					th = exprText(inc.X) + "++"
				}
			}
			if eb, ok := is.Else.(*ast.BlockStmt); ok && len(eb.List) == 1 {
				if as, ok := eb.List[0].(*ast.AssignStmt); ok && len(as.Lhs) == 1 {
					el = exprText(as.Lhs[0]) + " = " + exprText(as.Rhs[0])
				}
			}
			rule = th + " | " + el
			return false
		})
	}
	g.pf("def changesetSeqRule : String := %s\n", leanStr(rule))
	return g
}
