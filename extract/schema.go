package main

import (
	"go/ast"
	"go/token"
	"sort"
	"strconv"
	"strings"
)

// ---- Gen/Schema: struct fields with their xml/json tags, custom (un)marshal methods, the ordered
// Encode calls of the container marshalers, the element names dispatched by Action.UnmarshalXML and by
// the streaming scanner.

func init() { gens["Schema"] = genSchema }

func genSchema(repo string) *genFile {
	g := &genFile{name: "Schema"}
	p, err := loadPkg(repo)
	if err != nil {
		g.fail("cannot load package osm: %v", err)
		return g
	}
	g.pf("structure Field where\n  name : String\n  type : String\n  xml : String\n  json : String\n  deriving DecidableEq, Repr\n\n")
	type fld struct{ name, typ, xml, json string }
	types := map[string][]fld{}
	var collect func(tname string, st *ast.StructType)
	collect = func(tname string, st *ast.StructType) {
		for _, f := range st.Fields.List {
			tag := ""
			if f.Tag != nil {
				tag, _ = strconv.Unquote(f.Tag.Value)
			}
			x, j := tagValue(tag, "xml"), tagValue(tag, "json")
			names := []string{}
			for _, n := range f.Names {
				names = append(names, n.Name)
			}
			if len(names) == 0 { // embedded
				names = []string{"*" + typeName(f.Type)}
			}
			for _, n := range names {
				ty := typeText(f.Type)
				if inner, ok := f.Type.(*ast.StructType); ok {
					ty = "struct:" + tname + "." + n
					collect(tname+"."+n, inner)
				}
				types[tname] = append(types[tname], fld{n, ty, x, j})
			}
		}
	}
	for _, fn := range p.sortedFiles() {
		for _, d := range p.files[fn].Decls {
			gd, ok := d.(*ast.GenDecl)
			if !ok || gd.Tok != token.TYPE {
				continue
			}
			for _, s := range gd.Specs {
				ts := s.(*ast.TypeSpec)
				if st, ok := ts.Type.(*ast.StructType); ok {
					collect(ts.Name.Name, st)
				}
			}
		}
	}
	var tnames []string
	for t := range types {
		tnames = append(tnames, t)
	}
	sort.Strings(tnames)
	g.pf("def structs : List (String × List Field) := [\n")
	for i, t := range tnames {
		g.pf("  (%s, [\n", leanStr(t))
		for k, f := range types[t] {
			sep := ","
			if k == len(types[t])-1 {
				sep = ""
			}
			g.pf("    ⟨%s, %s, %s, %s⟩%s\n", leanStr(f.name), leanStr(f.typ), leanStr(f.xml), leanStr(f.json), sep)
		}
		if i == len(tnames)-1 {
			g.pf("  ])\n")
		} else {
			g.pf("  ]),\n")
		}
	}
	g.pf("]\n\n")

	// named slice / alias types: type Nodes []*Node, type Tags []Tag, type NodeID int64 ...
	var aliases []string
	for _, fn := range p.sortedFiles() {
		for _, d := range p.files[fn].Decls {
			gd, ok := d.(*ast.GenDecl)
			if !ok || gd.Tok != token.TYPE {
				continue
			}
			for _, s := range gd.Specs {
				ts := s.(*ast.TypeSpec)
				switch ts.Type.(type) {
				case *ast.StructType, *ast.InterfaceType, *ast.FuncType:
				default:
					aliases = append(aliases, ts.Name.Name+"="+typeText(ts.Type))
				}
			}
		}
	}
	sort.Strings(aliases)
	g.pf("def namedTypes : List String := %s\n\n", leanStrList(aliases))

	// custom methods
	var methods []string
	for _, fn := range p.sortedFiles() {
		for _, d := range p.files[fn].Decls {
			fd, ok := d.(*ast.FuncDecl)
			if !ok || fd.Recv == nil {
				continue
			}
			switch fd.Name.Name {
			case "MarshalXML", "UnmarshalXML", "MarshalJSON", "UnmarshalJSON":
				methods = append(methods, typeName(fd.Recv.List[0].Type)+"."+fd.Name.Name)
			}
		}
	}
	sort.Strings(methods)
	g.pf("def customMethods : List String := %s\n\n", leanStrList(methods))

	// ordered e.Encode / EncodeToken / helper calls of the container marshalers
	var lastGuards []string
	calls := func(recv, name string) []string {
		fd := p.funcDecl(recv, name)
		lastGuards = nil
		if fd == nil {
			g.fail("%s.%s not found", recv, name)
			return nil
		}
		// guard of every call: the conjunction of the enclosing `if cond {` conditions ("" = unconditional)
		guardOf := map[token.Pos]string{}
		var walk func(n ast.Node, guard string)
		mark := func(n ast.Node, guard string) {
			if n == nil {
				return
			}
			ast.Inspect(n, func(k ast.Node) bool {
				if c, ok := k.(*ast.CallExpr); ok {
					guardOf[c.Pos()] = guard
				}
				return true
			})
		}
		and := func(a, b string) string {
			if a == "" {
				return b
			}
			return a + " && " + b
		}
		walk = func(n ast.Node, guard string) {
			switch x := n.(type) {
			case *ast.BlockStmt:
				for _, st := range x.List {
					walk(st, guard)
				}
			case *ast.IfStmt:
				if x.Init != nil {
					mark(x.Init, guard)
				}
				mark(x.Cond, guard)
				cond := p.nodeText(x.Cond)
				if x.Init != nil {
					cond = "<" + p.nodeText(x.Init) + "; " + cond + ">"
				}
				walk(x.Body, and(guard, cond))
				if x.Else != nil {
					walk(x.Else, and(guard, "!("+cond+")"))
				}
			case *ast.ForStmt:
				walk(x.Body, and(guard, "<loop>"))
			case *ast.RangeStmt:
				walk(x.Body, and(guard, "<loop>"))
			case *ast.SwitchStmt, *ast.TypeSwitchStmt, *ast.SelectStmt:
				mark(n, and(guard, "<switch>"))
			default:
				mark(n, guard)
			}
		}
		walk(fd.Body, "")
		var out []string
		ast.Inspect(fd.Body, func(n ast.Node) bool {
			c, ok := n.(*ast.CallExpr)
			if !ok {
				return true
			}
			nOut := len(out)
			defer func() {
				for len(lastGuards) < len(out) {
					_ = nOut
					lastGuards = append(lastGuards, guardOf[c.Pos()])
				}
			}()
			t := exprText(c.Fun)
			switch {
			case t == "e.EncodeElement" && len(c.Args) == 2:
				// resolve a start element built in this function: x := xml.StartElement{Name: xml.Name{Local: "lit"}}
				name := ""
				if id, ok := c.Args[1].(*ast.Ident); ok {
					ast.Inspect(fd.Body, func(m ast.Node) bool {
						as, ok := m.(*ast.AssignStmt)
						if !ok || len(as.Lhs) != 1 || exprText(as.Lhs[0]) != id.Name {
							return true
						}
						ast.Inspect(as.Rhs[0], func(k ast.Node) bool {
							if kv, ok := k.(*ast.KeyValueExpr); ok && exprText(kv.Key) == "Local" {
								if lit, ok := kv.Value.(*ast.BasicLit); ok {
									name, _ = strconv.Unquote(lit.Value)
								}
							}
							return true
						})
						return true
					})
				}
				if name != "" {
					out = append(out, "e.EncodeElement("+exprText(c.Args[0])+", name:"+name+")")
				} else {
					out = append(out, exprText(c))
				}
			case t == "e.Encode" || t == "e.EncodeToken":
				out = append(out, exprText(c))
			case strings.HasPrefix(t, "marshalInner") || strings.HasSuffix(t, ".marshalInnerXML") || strings.HasSuffix(t, ".marshalInnerElementsXML"):
				out = append(out, exprText(c))
			}
			return true
		})
		return out
	}
	g.pf("def marshalInnerXMLCalls : List String := %s\n", leanStrList(calls("OSM", "marshalInnerXML")))
	g.pf("def marshalInnerXMLGuards : List String := %s\n", leanStrList(lastGuards))
	g.pf("def marshalInnerElementsXMLCalls : List String := %s\n", leanStrList(calls("OSM", "marshalInnerElementsXML")))
	g.pf("def marshalInnerElementsXMLGuards : List String := %s\n", leanStrList(lastGuards))
	g.pf("def osmMarshalXMLCalls : List String := %s\n", leanStrList(calls("OSM", "MarshalXML")))
	g.pf("def changeMarshalXMLCalls : List String := %s\n", leanStrList(calls("Change", "MarshalXML")))
	g.pf("def marshalInnerChangeCalls : List String := %s\n", leanStrList(calls("", "marshalInnerChange")))
	g.pf("def actionMarshalXMLCalls : List String := %s\n", leanStrList(calls("Action", "MarshalXML")))
	g.pf("def discussionMarshalXMLCalls : List String := %s\n\n", leanStrList(calls("ChangesetDiscussion", "MarshalXML")))

	// element names given explicitly in the marshalers (start.Name.Local = "...", xml.Name{Local: "..."}, helper arguments)
	lits := func(recv, name string) []string {
		fd := p.funcDecl(recv, name)
		if fd == nil {
			return nil
		}
		var out []string
		ast.Inspect(fd.Body, func(n ast.Node) bool {
			if lit, ok := n.(*ast.BasicLit); ok && lit.Kind == token.STRING {
				s, _ := strconv.Unquote(lit.Value)
				out = append(out, s)
			}
			return true
		})
		return out
	}
	g.pf("def osmMarshalXMLNames : List String := %s\n", leanStrList(lits("OSM", "MarshalXML")))
	g.pf("def changeMarshalXMLNames : List String := %s\n", leanStrList(lits("Change", "MarshalXML")))
	g.pf("def actionMarshalXMLNames : List String := %s\n", leanStrList(lits("Action", "MarshalXML")))
	g.pf("def discussionMarshalXMLNames : List String := %s\n\n", leanStrList(lits("ChangesetDiscussion", "MarshalXML")))

	// switch case labels (string literals) of the element dispatchers
	caseLabels := func(fd *ast.FuncDecl) []string {
		var out []string
		if fd == nil {
			return nil
		}
		ast.Inspect(fd.Body, func(n ast.Node) bool {
			cc, ok := n.(*ast.CaseClause)
			if !ok {
				return true
			}
			for _, e := range cc.List {
				if lit, ok := e.(*ast.BasicLit); ok && lit.Kind == token.STRING {
					s, _ := strconv.Unquote(lit.Value)
					out = append(out, s)
				}
			}
			return true
		})
		return out
	}
	// case labels split by what the clause does: decode the element (a DecodeElement call) or not; and the
	// statements of the default clause
	caseSplit := func(pk *pkg, fd *ast.FuncDecl) (decoding, other, deflt []string) {
		if fd == nil {
			return
		}
		ast.Inspect(fd.Body, func(n ast.Node) bool {
			cc, ok := n.(*ast.CaseClause)
			if !ok {
				return true
			}
			decodes := false
			for _, st := range cc.Body {
				ast.Inspect(st, func(x ast.Node) bool {
					if ce, ok := x.(*ast.CallExpr); ok && strings.HasSuffix(exprText(ce.Fun), "DecodeElement") {
						decodes = true
					}
					return true
				})
			}
			if cc.List == nil {
				for _, st := range cc.Body {
					pk.flat(st, &deflt)
				}
				return true
			}
			for _, e := range cc.List {
				if lit, ok := e.(*ast.BasicLit); ok && lit.Kind == token.STRING {
					s, _ := strconv.Unquote(lit.Value)
					if decodes {
						decoding = append(decoding, s)
					} else {
						other = append(other, s)
					}
				}
			}
			return true
		})
		return
	}
	{
		_, _, d := caseSplit(p, p.funcDecl("Action", "UnmarshalXML"))
		g.pf("def actionUnmarshalDefault : List String := %s\n", leanStrList(d))
	}
	g.pf("def actionUnmarshalCases : List String := %s\n", leanStrList(caseLabels(p.funcDecl("Action", "UnmarshalXML"))))
	g.pf("def osmUnmarshalJSONCases : List String := %s\n", leanStrList(caseLabels(p.funcDecl("OSM", "UnmarshalJSON"))))
	if sp, err := loadPkg(repo + "/osmxml"); err == nil {
		{
			dec, oth, dfl := caseSplit(sp, sp.funcDecl("Scanner", "Scan"))
			g.pf("def scannerCases : List String := %s\n", leanStrList(dec))
			g.pf("def scannerContainerCases : List String := %s\n", leanStrList(oth))
			g.pf("def scannerDefault : List String := %s\n", leanStrList(dfl))
		}
		// what the scanner's dispatch switches on (every switch with string case labels in Scan)
		var tags []string
		if fd := sp.funcDecl("Scanner", "Scan"); fd != nil {
			ast.Inspect(fd, func(n ast.Node) bool {
				if sw, ok := n.(*ast.SwitchStmt); ok && sw.Tag != nil {
					tags = append(tags, exprText(sw.Tag))
				}
				return true
			})
		}
		g.pf("def scannerSwitchTags : List String := %s\n", leanStrList(tags))
		// settings the scanner gives its xml.Decoder (none = the strict default that xml.Unmarshal uses too)
		var settings []string
		for _, fn := range sp.sortedFiles() {
			ast.Inspect(sp.files[fn], func(n ast.Node) bool {
				if as, ok := n.(*ast.AssignStmt); ok && len(as.Lhs) == 1 {
					l := exprText(as.Lhs[0])
					if strings.Contains(l, "decoder.") || strings.Contains(l, "Decoder.") {
						settings = append(settings, l+" = "+exprText(as.Rhs[0]))
					}
				}
				return true
			})
		}
		g.pf("def scannerDecoderSettings : List String := %s\n", leanStrList(settings))
	} else {
		g.fail("cannot load osmxml: %v", err)
	}
	// OSM.Objects(): the order in which the collections are flattened into the JSON `elements` array
	var objs []string
	if fd := p.funcDecl("OSM", "Objects"); fd != nil {
		ast.Inspect(fd.Body, func(n ast.Node) bool {
			switch x := n.(type) {
			case *ast.RangeStmt:
				objs = append(objs, exprText(x.X))
			case *ast.CallExpr:
				if exprText(x.Fun) == "append" && len(x.Args) == 2 && exprText(x.Args[1]) == "o.Bounds" {
					objs = append(objs, "o.Bounds")
				}
			}
			return true
		})
	}
	g.pf("def objectsOrder : List String := %s\n", leanStrList(objs))
	// JSON type shims: literal each xmlNameJSONType* emits
	var shims []string
	for _, fn := range p.sortedFiles() {
		for _, d := range p.files[fn].Decls {
			fd, ok := d.(*ast.FuncDecl)
			if !ok || fd.Recv == nil || fd.Name.Name != "MarshalJSON" || !strings.HasPrefix(typeName(fd.Recv.List[0].Type), "xmlNameJSONType") {
				continue
			}
			l := ""
			ast.Inspect(fd.Body, func(n ast.Node) bool {
				if lit, ok := n.(*ast.BasicLit); ok && lit.Kind == token.STRING {
					l, _ = strconv.Unquote(lit.Value)
				}
				return true
			})
			shims = append(shims, typeName(fd.Recv.List[0].Type)+"="+l)
		}
	}
	sort.Strings(shims)
	g.pf("def jsonTypeShims : List String := %s\n", leanStrList(shims))
	genSchemaJSON(g, p)
	return g
}

func tagValue(tag, key string) string {
	for tag != "" {
		i := 0
		for i < len(tag) && tag[i] == ' ' {
			i++
		}
		tag = tag[i:]
		if tag == "" {
			break
		}
		i = 0
		for i < len(tag) && tag[i] > ' ' && tag[i] != ':' && tag[i] != '"' {
			i++
		}
		if i == 0 || i+1 >= len(tag) || tag[i] != ':' || tag[i+1] != '"' {
			break
		}
		name := tag[:i]
		tag = tag[i+1:]
		i = 1
		for i < len(tag) && tag[i] != '"' {
			if tag[i] == '\\' {
				i++
			}
			i++
		}
		if i >= len(tag) {
			break
		}
		q := tag[:i+1]
		tag = tag[i+1:]
		if name == key {
			v, _ := strconv.Unquote(q)
			return v
		}
	}
	return ""
}

func typeText(e ast.Expr) string {
	switch t := e.(type) {
	case *ast.Ident:
		return t.Name
	case *ast.StarExpr:
		return "*" + typeText(t.X)
	case *ast.SelectorExpr:
		return typeText(t.X) + "." + t.Sel.Name
	case *ast.ArrayType:
		return "[]" + typeText(t.Elt)
	case *ast.StructType:
		return "struct"
	case *ast.InterfaceType:
		return "interface"
	case *ast.MapType:
		return "map[" + typeText(t.Key) + "]" + typeText(t.Value)
	}
	return "?"
}
