package main

// ---- Gen/Annotate: the statements of the goroutine protocol of annotate.ChildFirstOrdering (order.go), flattened,
// for the pinned facts of C14 (the producer's only channel send has a Done branch; Close cancels and waits).

func init() { gens["Annotate"] = genAnnotate }

func genAnnotate(repo string) *genFile {
	g := &genFile{name: "Annotate"}
	p, err := loadPkg(repo + "/annotate")
	if err != nil {
		g.fail("cannot load package annotate: %v", err)
		return g
	}
	body := func(recv, name string) []string {
		fd := p.funcDecl(recv, name)
		if fd == nil {
			g.fail("%s.%s not found", recv, name)
			return nil
		}
		var out []string
		p.flat(fd.Body, &out)
		return out
	}
	g.pf("def orderWalkBody : List String := %s\n", leanStrList(body("ChildFirstOrdering", "walk")))
	g.pf("def orderNextBody : List String := %s\n", leanStrList(body("ChildFirstOrdering", "Next")))
	g.pf("def orderCloseBody : List String := %s\n", leanStrList(body("ChildFirstOrdering", "Close")))
	g.pf("def orderErrBody : List String := %s\n", leanStrList(body("ChildFirstOrdering", "Err")))
	g.pf("def orderNewBody : List String := %s\n", leanStrList(body("", "NewChildFirstOrdering")))
	return g
}
