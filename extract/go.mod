module osmverif/extract

go 1.22
