package main

import (
	"fmt"
	"go/ast"
	"go/token"
	"strconv"
	"strings"
)

// ---- Gen/Ids: masks, shifts and the pack/unpack methods as BitVec 64 functions.
//
// Fragment understood: identifiers (receiver, parameters, package constants),
// | & << >> on int64-based types, parentheses, conversions between the int64
// based id types and int/int64 (identity on BitVec 64; Go's int is 64 bit on
// the platforms the checks run on), method calls on a receiver whose static
// type is known, `switch tag { case c: return K }`, `if cond { panic }`,
// `return e[, nil]`, `var b *Bounds`.

var idTypes = map[string]bool{"ObjectID": true, "ElementID": true, "FeatureID": true, "NodeID": true,
	"WayID": true, "RelationID": true, "ChangesetID": true, "NoteID": true, "UserID": true, "int64": true, "int": true}

type idMethod struct{ recv, name string }

var idMethods = []idMethod{
	{"NodeID", "FeatureID"}, {"WayID", "FeatureID"}, {"RelationID", "FeatureID"},
	{"FeatureID", "ElementID"}, {"FeatureID", "ObjectID"},
	{"NodeID", "ElementID"}, {"WayID", "ElementID"}, {"RelationID", "ElementID"},
	{"NodeID", "ObjectID"}, {"WayID", "ObjectID"}, {"RelationID", "ObjectID"},
	{"ChangesetID", "ObjectID"}, {"NoteID", "ObjectID"}, {"UserID", "ObjectID"}, {"Bounds", "ObjectID"},
	{"FeatureID", "Ref"}, {"ElementID", "Ref"}, {"ObjectID", "Ref"},
	{"ElementID", "Version"}, {"ObjectID", "Version"},
	{"ElementID", "ObjectID"}, {"ElementID", "FeatureID"},
	{"FeatureID", "Type"}, {"ElementID", "Type"}, {"ObjectID", "Type"},
	{"FeatureID", "NodeID"}, {"FeatureID", "WayID"}, {"FeatureID", "RelationID"},
	{"ElementID", "NodeID"}, {"ElementID", "WayID"}, {"ElementID", "RelationID"},
	{"Type", "FeatureID"}, {"Type", "objectID"},
}

type idTr struct {
	p      *pkg
	g      *genFile
	consts map[string]string // name -> kind "bv" | "str"
	// result kind per method: "bv", "str", "optbv", "optstr"
	res map[idMethod]string
}

func init() { gens["Ids"] = genIds }

func genIds(repo string) *genFile {
	g := &genFile{name: "Ids"}
	p, err := loadPkg(repo)
	if err != nil {
		g.fail("cannot load package osm: %v", err)
		return g
	}
	t := &idTr{p: p, g: g, consts: map[string]string{}, res: map[idMethod]string{}}

	// constants of feature.go
	f := p.files["feature.go"]
	if f == nil {
		g.fail("feature.go not found")
		return g
	}
	g.pf("-- constants (feature.go)\n")
	for _, d := range f.Decls {
		gd, ok := d.(*ast.GenDecl)
		if !ok || gd.Tok != token.CONST {
			continue
		}
		for _, s := range gd.Specs {
			vs := s.(*ast.ValueSpec)
			for i, n := range vs.Names {
				if i >= len(vs.Values) {
					g.fail("%s: constant %s without value", p.pos(vs), n.Name)
					continue
				}
				lit, ok := vs.Values[i].(*ast.BasicLit)
				if !ok {
					g.fail("%s: constant %s is not a literal", p.pos(vs), n.Name)
					continue
				}
				switch lit.Kind {
				case token.INT:
					v, err := strconv.ParseUint(strings.ReplaceAll(lit.Value, "_", ""), 0, 64)
					if err != nil {
						g.fail("%s: constant %s: %v", p.pos(vs), n.Name, err)
						continue
					}
					t.consts[n.Name] = "bv"
					g.pf("def %s : BitVec 64 := 0x%016X#64\n", n.Name, v)
					g.pf("def %s_n : Nat := %d\n", n.Name, v)
				case token.STRING:
					sv, _ := strconv.Unquote(lit.Value)
					t.consts[n.Name] = "str"
					g.pf("def %s : String := %s\n", n.Name, leanStr(sv))
				}
			}
		}
	}
	g.pf("\n")

	// result kinds first (needed for calls)
	for _, m := range idMethods {
		fd := p.funcDecl(m.recv, m.name)
		if fd == nil {
			g.fail("method %s.%s not found", m.recv, m.name)
			continue
		}
		t.res[m] = t.resultKind(fd)
	}
	for _, m := range idMethods {
		fd := p.funcDecl(m.recv, m.name)
		if fd == nil {
			continue
		}
		t.method(m, fd)
	}
	// the comparison functions of the provided sorts, statement by statement
	g.pf("-- Less methods of the provided sorts\n")
	for _, recv := range []string{"elementsSort", "elementIDsSort", "featureIDsSort", "nodesSort", "waysSort", "relationsSort"} {
		var out []string
		if fd := p.funcDecl(recv, "Less"); fd != nil {
			p.flat(fd.Body, &out)
		} else {
			g.fail("method %s.Less not found", recv)
		}
		g.pf("def less_%s : List String := %s\n", recv, leanStrList(out))
	}
	return g
}

func hasPanic(n ast.Node) bool {
	found := false
	ast.Inspect(n, func(x ast.Node) bool {
		if c, ok := x.(*ast.CallExpr); ok {
			if id, ok := c.Fun.(*ast.Ident); ok && id.Name == "panic" {
				found = true
			}
		}
		return true
	})
	return found
}

func (t *idTr) resultKind(fd *ast.FuncDecl) string {
	rs := fd.Type.Results
	if rs == nil || len(rs.List) == 0 {
		return "?"
	}
	base := "bv"
	if typeName(rs.List[0].Type) == "Type" {
		base = "str"
	}
	opt := hasPanic(fd.Body)
	if len(rs.List) == 2 && typeName(rs.List[1].Type) == "error" {
		opt = true
	}
	if opt {
		return "opt" + base
	}
	return base
}

type idEnv struct {
	vars map[string]string // var -> static type name
	m    idMethod
	fd   *ast.FuncDecl
}

func (t *idTr) method(m idMethod, fd *ast.FuncDecl) {
	g := t.g
	env := &idEnv{vars: map[string]string{}, m: m, fd: fd}
	var params []string
	recvName := "_recv"
	if len(fd.Recv.List[0].Names) == 1 {
		recvName = fd.Recv.List[0].Names[0].Name
	}
	env.vars[recvName] = m.recv
	recvTy := "BitVec 64"
	if m.recv == "Type" {
		recvTy = "String"
	}
	if m.recv == "Bounds" {
		recvTy = "Unit"
	}
	if m.recv == "Bounds" {
		recvName = "_" + recvName
	}
	params = append(params, fmt.Sprintf("(%s : %s)", leanIdent(recvName), recvTy))
	for _, f := range fd.Type.Params.List {
		tn := typeName(f.Type)
		if !idTypes[tn] {
			g.fail("%s: %s.%s: parameter type %s outside fragment", t.p.pos(fd), m.recv, m.name, tn)
			return
		}
		for _, n := range f.Names {
			env.vars[n.Name] = tn
			params = append(params, fmt.Sprintf("(%s : BitVec 64)", leanIdent(n.Name)))
		}
	}
	kind := t.res[m]
	resTy := map[string]string{"bv": "BitVec 64", "str": "String", "optbv": "Option (BitVec 64)", "optstr": "Option String"}[kind]
	body, err := t.stmts(env, fd.Body.List, kind)
	if err != nil {
		g.fail("%s: %s.%s: %v", t.p.pos(fd), m.recv, m.name, err)
		return
	}
	g.pf("-- %s (%s)\n", m.recv+"."+m.name, t.p.pos(fd))
	g.pf("def %s_%s %s : %s :=\n  %s\n\n", m.recv, m.name, strings.Join(params, " "), resTy, body)
}

func leanIdent(s string) string {
	switch s {
	case "id":
		return "id_"
	case "t", "v", "ref", "b", "_recv":
		return s
	}
	return s
}

func wrap(kind, e string) string {
	if strings.HasPrefix(kind, "opt") {
		return "some (" + e + ")"
	}
	return e
}

// stmts translates a statement list that ends in return/panic on every path.
func (t *idTr) stmts(env *idEnv, list []ast.Stmt, kind string) (string, error) {
	if len(list) == 0 {
		return "", fmt.Errorf("falls off the end")
	}
	switch s := list[0].(type) {
	case *ast.ReturnStmt:
		if len(s.Results) == 0 {
			return "", fmt.Errorf("bare return")
		}
		if len(s.Results) == 2 {
			if id, ok := s.Results[1].(*ast.Ident); ok && id.Name == "nil" {
				e, _, err := t.expr(env, s.Results[0])
				if err != nil {
					return "", err
				}
				return wrap(kind, e), nil
			}
			return "none", nil // return 0, err
		}
		e, _, err := t.expr(env, s.Results[0])
		if err != nil {
			return "", err
		}
		return wrap(kind, e), nil
	case *ast.ExprStmt:
		if c, ok := s.X.(*ast.CallExpr); ok {
			if id, ok := c.Fun.(*ast.Ident); ok && id.Name == "panic" {
				return "none", nil
			}
		}
		return "", fmt.Errorf("expression statement outside fragment")
	case *ast.DeclStmt:
		gd := s.Decl.(*ast.GenDecl)
		for _, sp := range gd.Specs {
			vs, ok := sp.(*ast.ValueSpec)
			if !ok || len(vs.Values) != 0 {
				return "", fmt.Errorf("declaration outside fragment")
			}
			for _, n := range vs.Names {
				env.vars[n.Name] = typeName(vs.Type)
			}
		}
		return t.stmts(env, list[1:], kind)
	case *ast.IfStmt:
		if s.Init != nil || s.Else != nil {
			return "", fmt.Errorf("if with init/else outside fragment")
		}
		c, err := t.cond(env, s.Cond)
		if err != nil {
			return "", err
		}
		th, err := t.stmts(env, s.Body.List, kind)
		if err != nil {
			return "", err
		}
		rest, err := t.stmts(env, list[1:], kind)
		if err != nil {
			return "", err
		}
		return fmt.Sprintf("if %s then %s else\n  %s", c, th, rest), nil
	case *ast.SwitchStmt:
		if s.Init != nil || s.Tag == nil {
			return "", fmt.Errorf("switch form outside fragment")
		}
		tag, _, err := t.expr(env, s.Tag)
		if err != nil {
			return "", err
		}
		var b strings.Builder
		var deflt string
		for _, cc := range s.Body.List {
			cl := cc.(*ast.CaseClause)
			body, err := t.stmts(env, cl.Body, kind)
			if err != nil {
				return "", err
			}
			if cl.List == nil {
				deflt = body
				continue
			}
			var cs []string
			for _, ce := range cl.List {
				e, _, err := t.expr(env, ce)
				if err != nil {
					return "", err
				}
				cs = append(cs, fmt.Sprintf("%s = %s", tag, e))
			}
			fmt.Fprintf(&b, "if %s then %s else\n  ", strings.Join(cs, " ∨ "), body)
		}
		if deflt != "" {
			b.WriteString(deflt)
			return b.String(), nil
		}
		rest, err := t.stmts(env, list[1:], kind)
		if err != nil {
			return "", err
		}
		b.WriteString(rest)
		return b.String(), nil
	}
	return "", fmt.Errorf("statement %T outside fragment", list[0])
}

func (t *idTr) cond(env *idEnv, e ast.Expr) (string, error) {
	be, ok := e.(*ast.BinaryExpr)
	if !ok || (be.Op != token.NEQ && be.Op != token.EQL) {
		return "", fmt.Errorf("condition outside fragment")
	}
	l, _, err := t.expr(env, be.X)
	if err != nil {
		return "", err
	}
	r, _, err := t.expr(env, be.Y)
	if err != nil {
		return "", err
	}
	op := "="
	if be.Op == token.NEQ {
		op = "≠"
	}
	return fmt.Sprintf("%s %s %s", l, op, r), nil
}

// expr returns the Lean text and the static Go type name of e.
func (t *idTr) expr(env *idEnv, e ast.Expr) (string, string, error) {
	switch x := e.(type) {
	case *ast.ParenExpr:
		s, ty, err := t.expr(env, x.X)
		return "(" + s + ")", ty, err
	case *ast.BasicLit:
		if x.Kind == token.STRING {
			sv, _ := strconv.Unquote(x.Value)
			return leanStr(sv), "string", nil
		}
		if x.Kind == token.INT {
			v, err := strconv.ParseUint(x.Value, 0, 64)
			if err != nil {
				return "", "", err
			}
			return fmt.Sprintf("%d#64", v), "int", nil
		}
	case *ast.Ident:
		if ty, ok := env.vars[x.Name]; ok {
			return leanIdent(x.Name), ty, nil
		}
		if k, ok := t.consts[x.Name]; ok {
			if k == "str" {
				return x.Name, "Type", nil
			}
			return x.Name, "untyped", nil
		}
		return "", "", fmt.Errorf("unknown identifier %s", x.Name)
	case *ast.BinaryExpr:
		l, lt, err := t.expr(env, x.X)
		if err != nil {
			return "", "", err
		}
		ty := lt
		switch x.Op {
		case token.SHL, token.SHR:
			// shift amount must be a constant
			id, ok := x.Y.(*ast.Ident)
			if !ok || t.consts[id.Name] != "bv" {
				return "", "", fmt.Errorf("shift by a non-constant")
			}
			if x.Op == token.SHL {
				return fmt.Sprintf("(%s <<< %s_n)", l, id.Name), ty, nil
			}
			// all id types are signed 64 bit integers: arithmetic shift
			return fmt.Sprintf("(BitVec.sshiftRight %s %s_n)", l, id.Name), ty, nil
		case token.OR, token.AND:
			r, rt, err := t.expr(env, x.Y)
			if err != nil {
				return "", "", err
			}
			if ty == "untyped" {
				ty = rt
			}
			op := "|||"
			if x.Op == token.AND {
				op = "&&&"
			}
			return fmt.Sprintf("(%s %s %s)", l, op, r), ty, nil
		}
		return "", "", fmt.Errorf("operator %s outside fragment", x.Op)
	case *ast.CallExpr:
		// conversion
		if id, ok := x.Fun.(*ast.Ident); ok && idTypes[id.Name] && len(x.Args) == 1 {
			s, _, err := t.expr(env, x.Args[0])
			return s, id.Name, err
		}
		if id, ok := x.Fun.(*ast.Ident); ok && id.Name == "Type" && len(x.Args) == 1 {
			s, _, err := t.expr(env, x.Args[0])
			return s, "Type", err
		}
		if sel, ok := x.Fun.(*ast.SelectorExpr); ok {
			rs, rt, err := t.expr(env, sel.X)
			if err != nil {
				return "", "", err
			}
			rt = strings.TrimPrefix(rt, "*")
			m := idMethod{rt, sel.Sel.Name}
			kind, ok := t.res[m]
			if !ok {
				return "", "", fmt.Errorf("call of %s.%s outside fragment", rt, sel.Sel.Name)
			}
			if kind != "bv" {
				return "", "", fmt.Errorf("call of partial method %s.%s inside an expression", rt, sel.Sel.Name)
			}
			if rt == "Bounds" {
				rs = "()"
			}
			args := []string{rs}
			for _, a := range x.Args {
				s, _, err := t.expr(env, a)
				if err != nil {
					return "", "", err
				}
				args = append(args, s)
			}
			fd := t.p.funcDecl(rt, sel.Sel.Name)
			return fmt.Sprintf("(%s_%s %s)", rt, sel.Sel.Name, strings.Join(args, " ")), typeName(fd.Type.Results.List[0].Type), nil
		}
	}
	return "", "", fmt.Errorf("expression %T outside fragment", e)
}
