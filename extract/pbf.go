package main

import (
	"go/ast"
	"go/token"
	"strings"
)

// ---- Gen/Pbf: facts about the osmpbf decoder that the PBF theorems interpret:
// the column/iterator bookkeeping of scanDenseNodes (which iterator is assigned under which field number and
// found-flag, which are cleared when not found, which are mandatory, which are used guarded by `!= nil`), the
// per-block resets of scanPrimitiveBlock, skip / filter / reuse statements of scanPrimitiveGroup and
// extractDenseNodes, the pipeline statements of decoder.Start / Next / readFileBlock, the framing readers,
// and the Scan / Err / Close bodies of the scanner.

func init() { gens["Pbf"] = genPbf }

func genPbf(repo string) *genFile {
	g := &genFile{name: "Pbf"}
	p, err := loadPkg(repo + "/osmpbf")
	if err != nil {
		g.fail("cannot load package osmpbf: %v", err)
		return g
	}
	need := func(recv, name string) *ast.FuncDecl {
		fd := p.funcDecl(recv, name)
		if fd == nil {
			g.fail("%s.%s not found", recv, name)
		}
		return fd
	}
	intLit := func(e ast.Expr) string {
		if l, ok := e.(*ast.BasicLit); ok && l.Kind == token.INT {
			return l.Value
		}
		return ""
	}
	// a switch case body: iterator assigned (dec.X, err = m.Iterator(dec.X)), flags set (foundY = true)
	caseFacts := func(cc *ast.CaseClause) (iters, flags []string) {
		for _, st := range cc.Body {
			as, ok := st.(*ast.AssignStmt)
			if !ok {
				continue
			}
			if len(as.Rhs) == 1 {
				if c, ok := as.Rhs[0].(*ast.CallExpr); ok && strings.HasSuffix(exprText(c.Fun), ".Iterator") && len(c.Args) == 1 &&
					len(as.Lhs) == 2 && exprText(as.Lhs[0]) == exprText(c.Args[0]) {
					iters = append(iters, strings.TrimPrefix(exprText(as.Lhs[0]), "dec."))
				}
				if id, ok := as.Rhs[0].(*ast.Ident); ok && id.Name == "true" && len(as.Lhs) == 1 {
					flags = append(flags, exprText(as.Lhs[0]))
				}
			}
		}
		return
	}
	// `if cond { dec.a = nil; dec.b = nil }` or `if cond { return errors.New(…) }`
	ifFact := func(is *ast.IfStmt) (string, bool) {
		if is.Init != nil || is.Else != nil {
			return "", false
		}
		var cleared []string
		isErr := false
		for _, st := range is.Body.List {
			switch x := st.(type) {
			case *ast.AssignStmt:
				if len(x.Lhs) == 1 && len(x.Rhs) == 1 && exprText(x.Rhs[0]) == "nil" && strings.HasPrefix(exprText(x.Lhs[0]), "dec.") {
					cleared = append(cleared, strings.TrimPrefix(exprText(x.Lhs[0]), "dec."))
				} else {
					return "", false
				}
			case *ast.ReturnStmt:
				if len(x.Results) == 1 && strings.HasPrefix(exprText(x.Results[0]), "errors.New(") {
					isErr = true
				} else {
					return "", false
				}
			default:
				return "", false
			}
		}
		if isErr && len(cleared) == 0 {
			return p.nodeText(is.Cond) + "|error", true
		}
		if !isErr && len(cleared) > 0 {
			return p.nodeText(is.Cond) + "|" + strings.Join(cleared, ","), true
		}
		return "", false
	}

	var fieldCases, infoCases, infoResets, postChecks []string
	if fd := need("dataDecoder", "scanDenseNodes"); fd != nil {
		// the outer switch is the first switch on msg.FieldNumber()
		var outer *ast.SwitchStmt
		ast.Inspect(fd.Body, func(n ast.Node) bool {
			if sw, ok := n.(*ast.SwitchStmt); ok && outer == nil && sw.Tag != nil && exprText(sw.Tag) == "msg.FieldNumber()" {
				outer = sw
			}
			return outer == nil
		})
		if outer == nil {
			g.fail("scanDenseNodes: no switch on msg.FieldNumber()")
		} else {
			for _, c := range outer.Body.List {
				cc := c.(*ast.CaseClause)
				if len(cc.List) != 1 || intLit(cc.List[0]) == "" {
					continue
				}
				num := intLit(cc.List[0])
				var inner *ast.SwitchStmt
				ast.Inspect(cc, func(n ast.Node) bool {
					if sw, ok := n.(*ast.SwitchStmt); ok && inner == nil && sw.Tag != nil && exprText(sw.Tag) == "info.FieldNumber()" {
						inner = sw
					}
					return inner == nil
				})
				if inner == nil {
					it, fl := caseFacts(cc)
					fieldCases = append(fieldCases, num+"|"+strings.Join(it, ",")+"|"+strings.Join(fl, ","))
					continue
				}
				// the dense info message
				for _, ic := range inner.Body.List {
					icc := ic.(*ast.CaseClause)
					if len(icc.List) != 1 || intLit(icc.List[0]) == "" {
						continue
					}
					it, fl := caseFacts(icc)
					infoCases = append(infoCases, intLit(icc.List[0])+"|"+strings.Join(it, ",")+"|"+strings.Join(fl, ","))
				}
				var flags []string
				for _, st := range cc.Body {
					switch x := st.(type) {
					case *ast.IfStmt:
						if f, ok := ifFact(x); ok && !strings.HasSuffix(f, "|error") {
							infoResets = append(infoResets, f)
						}
					case *ast.AssignStmt:
						if len(x.Lhs) == 1 && len(x.Rhs) == 1 && exprText(x.Rhs[0]) == "true" {
							flags = append(flags, exprText(x.Lhs[0]))
						}
					}
				}
				fieldCases = append(fieldCases, num+"|<info>|"+strings.Join(flags, ","))
			}
		}
		for _, st := range fd.Body.List {
			if is, ok := st.(*ast.IfStmt); ok {
				if f, ok := ifFact(is); ok {
					postChecks = append(postChecks, f)
				}
			}
		}
	}
	g.pf("def denseFieldCases : List String := %s\n", leanStrList(fieldCases))
	g.pf("def denseInfoCases : List String := %s\n", leanStrList(infoCases))
	g.pf("def denseInfoResets : List String := %s\n", leanStrList(infoResets))
	g.pf("def densePostChecks : List String := %s\n", leanStrList(postChecks))

	// extractDenseNodes: iterators read under `if dec.X != nil`, and iterators read without a guard
	var guarded, unguarded []string
	if fd := need("dataDecoder", "extractDenseNodes"); fd != nil {
		seenG, seenU := map[string]bool{}, map[string]bool{}
		var walk func(n ast.Node, guards map[string]bool)
		walk = func(n ast.Node, guards map[string]bool) {
			ast.Inspect(n, func(k ast.Node) bool {
				switch x := k.(type) {
				case *ast.IfStmt:
					if x.Init == nil {
						if be, ok := x.Cond.(*ast.BinaryExpr); ok && be.Op == token.NEQ && exprText(be.Y) == "nil" && strings.HasPrefix(exprText(be.X), "dec.") {
							it := strings.TrimPrefix(exprText(be.X), "dec.")
							g2 := map[string]bool{it: true}
							for k := range guards {
								g2[k] = true
							}
							walk(x.Body, g2)
							if x.Else != nil {
								walk(x.Else, guards)
							}
							return false
						}
					}
				case *ast.SelectorExpr:
					// dec.X.Method or dec.X.Field
					if inner, ok := x.X.(*ast.SelectorExpr); ok && exprText(inner.X) == "dec" {
						it := inner.Sel.Name
						if it == "scanner" || it == "primitiveBlock" || it == "q" {
							return true
						}
						if guards[it] {
							if !seenG[it] {
								seenG[it] = true
								guarded = append(guarded, it)
							}
						} else if !seenU[it] {
							seenU[it] = true
							unguarded = append(unguarded, it)
						}
					}
				}
				return true
			})
		}
		walk(fd.Body, map[string]bool{})
	}
	g.pf("def denseExtractGuarded : List String := %s\n", leanStrList(guarded))
	g.pf("def denseExtractUnguarded : List String := %s\n\n", leanStrList(unguarded))

	// scanPrimitiveBlock: what is reset when the cached block is reused
	var blockResets []string
	if fd := need("dataDecoder", "scanPrimitiveBlock"); fd != nil {
		for _, st := range fd.Body.List {
			if is, ok := st.(*ast.IfStmt); ok && is.Else != nil && strings.Contains(p.nodeText(is.Cond), "dec.primitiveBlock == nil") {
				if eb, ok := is.Else.(*ast.BlockStmt); ok {
					for _, s := range eb.List {
						blockResets = append(blockResets, p.nodeText(s))
					}
				}
			}
		}
	}
	g.pf("def blockResets : List String := %s\n", leanStrList(blockResets))

	// scanWays / scanRelations: the iterator cases of their switch and the guards under which the cached
	// iterators are read (scanTags / extractMembers)
	for _, fn := range []string{"scanWays", "scanRelations"} {
		var cases, calls []string
		if fd := need("dataDecoder", fn); fd != nil {
			var outer *ast.SwitchStmt
			ast.Inspect(fd.Body, func(n ast.Node) bool {
				if sw, ok := n.(*ast.SwitchStmt); ok && outer == nil && sw.Tag != nil && exprText(sw.Tag) == "msg.FieldNumber()" {
					outer = sw
				}
				return outer == nil
			})
			if outer != nil {
				for _, c := range outer.Body.List {
					cc := c.(*ast.CaseClause)
					if len(cc.List) != 1 || intLit(cc.List[0]) == "" {
						continue
					}
					it, fl := caseFacts(cc)
					if len(it) > 0 {
						cases = append(cases, intLit(cc.List[0])+"|"+strings.Join(it, ",")+"|"+strings.Join(fl, ","))
					}
				}
			}
			for _, st := range fd.Body.List {
				is, ok := st.(*ast.IfStmt)
				if !ok || is.Init != nil {
					continue
				}
				ast.Inspect(is.Body, func(n ast.Node) bool {
					if c, ok := n.(*ast.CallExpr); ok {
						f := exprText(c.Fun)
						if f == "scanTags" || f == "extractMembers" {
							var args []string
							for _, a := range c.Args {
								if strings.HasPrefix(exprText(a), "dec.") {
									args = append(args, strings.TrimPrefix(exprText(a), "dec."))
								}
							}
							calls = append(calls, p.nodeText(is.Cond)+"|"+f+"|"+strings.Join(args, ","))
						}
					}
					return true
				})
			}
		}
		// every call of the two consumers of optional iterators anywhere in the function, guarded or not
		all := 0
		if fd := need("dataDecoder", fn); fd != nil {
			ast.Inspect(fd.Body, func(n ast.Node) bool {
				if c, ok := n.(*ast.CallExpr); ok {
					if f := exprText(c.Fun); f == "scanTags" || f == "extractMembers" {
						all++
					}
				}
				return true
			})
		}
		g.pf("def %sCases : List String := %s\n", fn, leanStrList(cases))
		g.pf("def %sGuardedCalls : List String := %s\n", fn, leanStrList(calls))
		g.pf("def %sConsumerCallCount : Nat := %d\n", fn, all)
	}

	// all statements of a function, flattened in source order (simple statements only; compound ones as headers)
	flat := func(n ast.Node, out *[]string) { p.flat(n, out) }
	flatBody := func(recv, name string) []string {
		fd := need(recv, name)
		if fd == nil {
			return nil
		}
		var out []string
		flat(fd.Body, &out)
		return out
	}
	g.pf("\ndef scanPrimitiveGroupBody : List String := %s\n", leanStrList(flatBody("dataDecoder", "scanPrimitiveGroup")))
	// the accumulators the element loops start from (the first element of a group is decoded into these)
	var initial []string
	for _, l := range flatBody("dataDecoder", "scanPrimitiveGroup") {
		if strings.HasPrefix(l, "way := ") || strings.HasPrefix(l, "relation := ") {
			initial = append(initial, l)
		}
	}
	for _, l := range flatBody("dataDecoder", "extractDenseNodes") {
		if strings.HasPrefix(l, "n := ") {
			initial = append(initial, l)
		}
	}
	g.pf("def initialAccumulators : List String := %s\n", leanStrList(initial))
	// the accept / reject tail of extractDenseNodes (the last if statement of the loop)
	var denseTail []string
	if fd := need("dataDecoder", "extractDenseNodes"); fd != nil {
		ast.Inspect(fd.Body, func(n ast.Node) bool {
			if is, ok := n.(*ast.IfStmt); ok && strings.Contains(p.nodeText(is.Cond), "FilterNode") {
				denseTail = nil
				flat(is, &denseTail)
			}
			return true
		})
	}
	g.pf("def denseAcceptReject : List String := %s\n", leanStrList(denseTail))
	g.pf("def decodeBody : List String := %s\n", leanStrList(flatBody("dataDecoder", "Decode")))
	g.pf("\ndef startBody : List String := %s\n", leanStrList(flatBody("decoder", "Start")))
	g.pf("def nextBody : List String := %s\n", leanStrList(flatBody("decoder", "Next")))
	g.pf("def decoderCloseBody : List String := %s\n", leanStrList(flatBody("decoder", "Close")))
	g.pf("def readFileBlockBody : List String := %s\n", leanStrList(flatBody("decoder", "readFileBlock")))
	g.pf("def readBlobHeaderSizeBody : List String := %s\n", leanStrList(flatBody("decoder", "readBlobHeaderSize")))
	g.pf("def readBlobHeaderBody : List String := %s\n", leanStrList(flatBody("decoder", "readBlobHeader")))
	g.pf("def readBlobBody : List String := %s\n", leanStrList(flatBody("decoder", "readBlob")))
	g.pf("def getDataBody : List String := %s\n", leanStrList(flatBody("", "getData")))
	g.pf("def decodeOSMHeaderBody : List String := %s\n", leanStrList(flatBody("", "decodeOSMHeader")))
	g.pf("\ndef scanBody : List String := %s\n", leanStrList(flatBody("Scanner", "Scan")))
	g.pf("def errBody : List String := %s\n", leanStrList(flatBody("Scanner", "Err")))
	g.pf("def closeBody : List String := %s\n", leanStrList(flatBody("Scanner", "Close")))
	g.pf("def headerBody : List String := %s\n", leanStrList(flatBody("Scanner", "Header")))
	g.pf("def fullyScannedBytesBody : List String := %s\n", leanStrList(flatBody("Scanner", "FullyScannedBytes")))
	g.pf("def previousFullyScannedBytesBody : List String := %s\n", leanStrList(flatBody("Scanner", "PreviousFullyScannedBytes")))

	// the XML scanner's Scan / Err / Close (same call-history contract)
	if xp, err := loadPkg(repo + "/osmxml"); err == nil {
		xbody := func(name string) []string {
			fd := xp.funcDecl("Scanner", name)
			if fd == nil {
				g.fail("osmxml Scanner.%s not found", name)
				return nil
			}
			var out []string
			xp.flat(fd.Body, &out)
			return out
		}
		g.pf("\ndef xmlScanBody : List String := %s\n", leanStrList(xbody("Scan")))
		g.pf("def xmlErrBody : List String := %s\n", leanStrList(xbody("Err")))
		g.pf("def xmlCloseBody : List String := %s\n", leanStrList(xbody("Close")))
	} else {
		g.fail("cannot load osmxml: %v", err)
	}

	// constants and capability table
	var consts []string
	for _, fn := range p.sortedFiles() {
		for _, d := range p.files[fn].Decls {
			gd, ok := d.(*ast.GenDecl)
			if !ok || (gd.Tok != token.CONST && gd.Tok != token.VAR) {
				continue
			}
			for _, s := range gd.Specs {
				vs := s.(*ast.ValueSpec)
				for i, n := range vs.Names {
					if i < len(vs.Values) && (n.Name == "maxBlobHeaderSize" || n.Name == "maxBlobSize" || n.Name == "osmHeaderType" || n.Name == "osmDataType" || n.Name == "parseCapabilities") {
						consts = append(consts, n.Name+"="+p.nodeText(vs.Values[i]))
					}
				}
			}
		}
	}
	g.pf("\ndef pbfConsts : List String := %s\n", leanStrList(consts))
	return g
}

// flat prints the statements of n, one per line, compound statements as header / body / "}" lines.
func (p *pkg) flat(n ast.Node, out *[]string) {
	switch x := n.(type) {
	case *ast.BlockStmt:
		for _, s := range x.List {
			p.flat(s, out)
		}
	case *ast.IfStmt:
		h := "if "
		if x.Init != nil {
			h += p.nodeText(x.Init) + "; "
		}
		*out = append(*out, h+p.nodeText(x.Cond)+" {")
		p.flat(x.Body, out)
		if x.Else != nil {
			*out = append(*out, "} else {")
			p.flat(x.Else, out)
		}
		*out = append(*out, "}")
	case *ast.ForStmt:
		h := "for "
		if x.Init != nil || x.Post != nil {
			if x.Init != nil {
				h += p.nodeText(x.Init)
			}
			h += "; "
			if x.Cond != nil {
				h += p.nodeText(x.Cond)
			}
			h += "; "
			if x.Post != nil {
				h += p.nodeText(x.Post)
			}
		} else if x.Cond != nil {
			h += p.nodeText(x.Cond)
		}
		*out = append(*out, strings.TrimSpace(h)+" {")
		p.flat(x.Body, out)
		*out = append(*out, "}")
	case *ast.RangeStmt:
		h := "for "
		if x.Key != nil {
			h += exprText(x.Key)
			if x.Value != nil {
				h += ", " + exprText(x.Value)
			}
			h += " " + x.Tok.String() + " "
		}
		*out = append(*out, h+"range "+p.nodeText(x.X)+" {")
		p.flat(x.Body, out)
		*out = append(*out, "}")
	case *ast.SelectStmt:
		*out = append(*out, "select {")
		for _, c := range x.Body.List {
			cc := c.(*ast.CommClause)
			if cc.Comm == nil {
				*out = append(*out, "default:")
			} else {
				*out = append(*out, "case "+p.nodeText(cc.Comm)+":")
			}
			for _, s := range cc.Body {
				p.flat(s, out)
			}
		}
		*out = append(*out, "}")
	case *ast.SwitchStmt:
		h := "switch"
		if x.Tag != nil {
			h += " " + p.nodeText(x.Tag)
		}
		*out = append(*out, h+" {")
		for _, c := range x.Body.List {
			cc := c.(*ast.CaseClause)
			if cc.List == nil {
				*out = append(*out, "default:")
			} else {
				var l []string
				for _, e := range cc.List {
					l = append(l, p.nodeText(e))
				}
				*out = append(*out, "case "+strings.Join(l, ", ")+":")
			}
			for _, s := range cc.Body {
				p.flat(s, out)
			}
		}
		*out = append(*out, "}")
	case *ast.GoStmt:
		if fl, ok := x.Call.Fun.(*ast.FuncLit); ok {
			*out = append(*out, "go func() {")
			p.flat(fl.Body, out)
			*out = append(*out, "}()")
		} else {
			*out = append(*out, p.nodeText(x))
		}
	case *ast.DeferStmt:
		if fl, ok := x.Call.Fun.(*ast.FuncLit); ok {
			*out = append(*out, "defer func() {")
			p.flat(fl.Body, out)
			*out = append(*out, "}()")
		} else {
			*out = append(*out, p.nodeText(x))
		}
	case *ast.LabeledStmt:
		*out = append(*out, x.Label.Name+":")
		p.flat(x.Stmt, out)
	case nil:
	default:
		*out = append(*out, p.nodeText(n))
	}
}
