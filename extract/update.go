package main

import (
	"go/ast"
	"go/token"
)

// ---- Gen/Update: facts about update.go (sort keys) and way.go (LineStringAt's late-update branch).

func init() { gens["Update"] = genUpdate }

func genUpdate(repo string) *genFile {
	g := &genFile{name: "Update"}
	p, err := loadPkg(repo)
	if err != nil {
		g.fail("cannot load package osm: %v", err)
		return g
	}
	// Way.LineStringAt: inside `for _, u := range w.Updates`, the statement executed when
	// `u.Timestamp.After(t)`.
	late := ""
	if fd := p.funcDecl("Way", "LineStringAt"); fd != nil {
		ast.Inspect(fd.Body, func(n ast.Node) bool {
			rs, ok := n.(*ast.RangeStmt)
			if !ok || exprText(rs.X) != "w.Updates" {
				return true
			}
			for _, st := range rs.Body.List {
				is, ok := st.(*ast.IfStmt)
				if !ok || exprText(is.Cond) != "u.Timestamp.After(t)" || len(is.Body.List) != 1 {
					continue
				}
				if bs, ok := is.Body.List[0].(*ast.BranchStmt); ok {
					switch bs.Tok {
					case token.BREAK:
						late = "break"
					case token.CONTINUE:
						late = "continue"
					}
				}
			}
			return false
		})
	}
	if late == "" {
		g.fail("Way.LineStringAt: cannot find `if u.Timestamp.After(t) { break|continue }` in the update loop")
		late = "unknown"
	}
	g.pf("/-- way.go, Way.LineStringAt: what the update loop does at the first update stamped after t -/\n")
	g.pf("def lineStringAtLateBreaks : Bool := %v\n\n", late == "break")
	facts["way.LineStringAt.late"] = late

	// Less bodies as lexicographic key lists
	keys := func(recv string) []string {
		fd := p.funcDecl(recv, "Less")
		if fd == nil {
			g.fail("%s.Less not found", recv)
			return nil
		}
		var ks []string
		for _, st := range fd.Body.List {
			switch s := st.(type) {
			case *ast.IfStmt:
				// if us[i].F != us[j].F { return us[i].F < us[j].F }
				c := exprText(s.Cond)
				switch c {
				case "us[i].Index != us[j].Index":
					ks = append(ks, "index")
				case "!us[i].Timestamp.Equal(us[j].Timestamp)":
					ks = append(ks, "timestamp")
				case "us[i].Version != us[j].Version":
					ks = append(ks, "version")
				default:
					g.fail("%s: %s.Less: condition %q outside fragment", p.pos(s), recv, c)
				}
			case *ast.ReturnStmt:
				r := exprText(s.Results[0])
				switch r {
				case "us[i].Timestamp.Before(us[j].Timestamp)":
					ks = append(ks, "timestamp")
				case "us[i].Index < us[j].Index":
					ks = append(ks, "index")
				case "us[i].Version < us[j].Version":
					ks = append(ks, "version")
				default:
					g.fail("%s: %s.Less: return %q outside fragment", p.pos(s), recv, r)
				}
			default:
				g.fail("%s: %s.Less: statement outside fragment", p.pos(st), recv)
			}
		}
		return ks
	}
	g.pf("/-- update.go: lexicographic comparison keys of the two sort orders -/\n")
	g.pf("def sortIndexKeys : List String := %s\n", leanStrList(keys("updatesSortIndex")))
	// which sort SortByIndex calls
	{
		var out []string
		if fd := p.funcDecl("Updates", "SortByIndex"); fd != nil {
			p.flat(fd.Body, &out)
		} else {
			g.fail("Updates.SortByIndex not found")
		}
		g.pf("def sortByIndexBody : List String := %s\n", leanStrList(out))
	}
	g.pf("def sortTimestampKeys : List String := %s\n", leanStrList(keys("updatesSortTS")))
	return g
}
