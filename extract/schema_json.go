package main

import (
	"bytes"
	"go/ast"
	"go/printer"
	"go/token"
	"strconv"
	"strings"
)

// ---- JSON part of Gen/Schema: the anonymous top-level structs of OSM.MarshalJSON / OSM.UnmarshalJSON, the
// statements that compute the elements array, the top-level assignments with their guards, the dispatch
// targets, literal returns of the small marshalers and the codec-routing helpers.

func (p *pkg) nodeText(n ast.Node) string {
	var b bytes.Buffer
	_ = printer.Fprint(&b, p.fset, n)
	return strings.Join(strings.Fields(b.String()), " ")
}

func genSchemaJSON(g *genFile, p *pkg) {
	structFields := func(st *ast.StructType) []string {
		var out []string
		for _, f := range st.Fields.List {
			tag := ""
			if f.Tag != nil {
				tag, _ = strconv.Unquote(f.Tag.Value)
			}
			for _, n := range f.Names {
				out = append(out, n.Name+"|"+typeText(f.Type)+"|"+tagValue(tag, "json"))
			}
		}
		return out
	}
	// OSM.MarshalJSON: the struct literal and the statements before it
	var mFields, mValues, mStmts []string
	if fd := p.funcDecl("OSM", "MarshalJSON"); fd != nil {
		for _, st := range fd.Body.List {
			var cl *ast.CompositeLit
			ast.Inspect(st, func(n ast.Node) bool {
				if c, ok := n.(*ast.CompositeLit); ok && cl == nil {
					if _, ok := c.Type.(*ast.StructType); ok {
						cl = c
					}
				}
				return true
			})
			if cl != nil {
				mFields = structFields(cl.Type.(*ast.StructType))
				for _, e := range cl.Elts {
					if kv, ok := e.(*ast.KeyValueExpr); ok {
						mValues = append(mValues, exprText(kv.Key)+":"+p.nodeText(kv.Value))
					} else {
						mValues = append(mValues, p.nodeText(e))
					}
				}
				break
			}
			mStmts = append(mStmts, p.nodeText(st))
		}
	} else {
		g.fail("OSM.MarshalJSON not found")
	}
	g.pf("\ndef osmMarshalJSONFields : List String := %s\n", leanStrList(mFields))
	g.pf("def osmMarshalJSONValues : List String := %s\n", leanStrList(mValues))
	g.pf("def osmMarshalJSONStmts : List String := %s\n", leanStrList(mStmts))

	// OSM.UnmarshalJSON: struct fields; assignments `o.X = …` outside the element loop, with the enclosing guard
	var uFields, uAssigns, uTargets []string
	if fd := p.funcDecl("OSM", "UnmarshalJSON"); fd != nil {
		ast.Inspect(fd.Body, func(n ast.Node) bool {
			if c, ok := n.(*ast.CompositeLit); ok && uFields == nil {
				if st, ok := c.Type.(*ast.StructType); ok {
					uFields = structFields(st)
				}
			}
			return true
		})
		var walk func(stmts []ast.Stmt, guard string)
		walk = func(stmts []ast.Stmt, guard string) {
			for _, st := range stmts {
				switch x := st.(type) {
				case *ast.AssignStmt:
					if len(x.Lhs) == 1 && strings.HasPrefix(exprText(x.Lhs[0]), "o.") {
						uAssigns = append(uAssigns, exprText(x.Lhs[0])+"|"+p.nodeText(x.Rhs[0])+"|"+guard)
					}
				case *ast.IfStmt:
					if x.Init == nil && x.Else == nil {
						gd := p.nodeText(x.Cond)
						if guard != "" {
							gd = guard + " && " + gd
						}
						walk(x.Body.List, gd)
					} else if x.Else != nil {
						uAssigns = append(uAssigns, "?|"+p.nodeText(x)+"|"+guard)
					}
				}
			}
		}
		walk(fd.Body.List, "")
		ast.Inspect(fd.Body, func(n ast.Node) bool {
			cc, ok := n.(*ast.CaseClause)
			if !ok || len(cc.List) != 1 {
				return true
			}
			lit, ok := cc.List[0].(*ast.BasicLit)
			if !ok || lit.Kind != token.STRING {
				return true
			}
			label, _ := strconv.Unquote(lit.Value)
			typ, target := "", ""
			ast.Inspect(cc, func(k ast.Node) bool {
				switch y := k.(type) {
				case *ast.CompositeLit:
					if typ == "" {
						typ = typeText(y.Type)
					}
				case *ast.AssignStmt:
					if len(y.Rhs) == 1 {
						if c, ok := y.Rhs[0].(*ast.CallExpr); ok && exprText(c.Fun) == "append" && len(c.Args) == 2 && exprText(c.Args[0]) == exprText(y.Lhs[0]) {
							target = exprText(y.Lhs[0])
						}
					}
				}
				return true
			})
			uTargets = append(uTargets, label+"|"+typ+"|"+target)
			return true
		})
	} else {
		g.fail("OSM.UnmarshalJSON not found")
	}
	g.pf("def osmUnmarshalJSONFields : List String := %s\n", leanStrList(uFields))
	g.pf("def osmUnmarshalJSONAssigns : List String := %s\n", leanStrList(uAssigns))
	g.pf("def osmUnmarshalJSONTargets : List String := %s\n", leanStrList(uTargets))

	// bodies of the small JSON methods, statement by statement (pinned in the theorems)
	body := func(recv, name string) []string {
		fd := p.funcDecl(recv, name)
		if fd == nil {
			return []string{"<missing>"}
		}
		var out []string
		for _, st := range fd.Body.List {
			out = append(out, p.nodeText(st))
		}
		return out
	}
	g.pf("def membersMarshalJSONBody : List String := %s\n", leanStrList(body("Members", "MarshalJSON")))
	g.pf("def dateMarshalJSONBody : List String := %s\n", leanStrList(body("Date", "MarshalJSON")))
	g.pf("def tagsMarshalJSONBody : List String := %s\n", leanStrList(body("Tags", "MarshalJSON")))
	g.pf("def tagsUnmarshalJSONBody : List String := %s\n", leanStrList(body("Tags", "UnmarshalJSON")))
	g.pf("def tagsMapBody : List String := %s\n", leanStrList(body("Tags", "Map")))
	g.pf("def wayNodesMarshalJSONBody : List String := %s\n", leanStrList(body("WayNodes", "MarshalJSON")))
	g.pf("def wayNodesUnmarshalJSONBody : List String := %s\n", leanStrList(body("WayNodes", "UnmarshalJSON")))
	g.pf("def marshalJSONHelperBody : List String := %s\n", leanStrList(body("", "marshalJSON")))
	g.pf("def unmarshalJSONHelperBody : List String := %s\n", leanStrList(body("", "unmarshalJSON")))
	g.pf("def findTypeBody : List String := %s\n", leanStrList(body("", "findType")))
	// which functions have JSON methods on Change / Diff / Action (none expected: they use the struct tags)
}
