package main

import (
	"encoding/json"
	"go/ast"
	"go/token"
	"strconv"
	"strings"
)

// ---- Gen/Polygon: the embedded polygon-features rule table and the init fact.

func init() { gens["Polygon"] = genPolygon }

func genPolygon(repo string) *genFile {
	g := &genFile{name: "Polygon"}
	p, err := loadPkg(repo)
	if err != nil {
		g.fail("cannot load package osm: %v", err)
		return g
	}
	f := p.files["polygon.go"]
	if f == nil {
		g.fail("polygon.go not found")
		return g
	}
	g.pf("inductive CondKind | all | whitelist | blacklist | other\n  deriving DecidableEq, Repr\n\n")
	g.pf("structure Cond where\n  key : String\n  kind : CondKind\n  values : List String\n  deriving DecidableEq, Repr\n\n")

	// condition constants
	condNames := map[string]string{} // literal -> all/whitelist/blacklist
	raw := ""
	for _, d := range f.Decls {
		gd, ok := d.(*ast.GenDecl)
		if !ok || gd.Tok != token.VAR {
			continue
		}
		for _, s := range gd.Specs {
			vs := s.(*ast.ValueSpec)
			for i, n := range vs.Names {
				if i >= len(vs.Values) {
					continue
				}
				switch n.Name {
				case "conditionAll", "conditionBlacklist", "conditionWhitelist":
					if lit, ok := vs.Values[i].(*ast.BasicLit); ok && lit.Kind == token.STRING {
						sv, _ := strconv.Unquote(lit.Value)
						condNames[sv] = strings.ToLower(strings.TrimPrefix(n.Name, "condition"))
					} else {
						g.fail("%s: %s is not a string literal", p.pos(vs), n.Name)
					}
				case "polygonJSON":
					// []byte(`...`)
					if c, ok := vs.Values[i].(*ast.CallExpr); ok && len(c.Args) == 1 {
						if lit, ok := c.Args[0].(*ast.BasicLit); ok && lit.Kind == token.STRING {
							raw, _ = strconv.Unquote(lit.Value)
						}
					}
					if raw == "" {
						g.fail("%s: polygonJSON is not []byte(<string literal>)", p.pos(vs))
					}
				}
			}
		}
	}
	if len(condNames) != 3 {
		g.fail("expected the three condition constants, found %v", condNames)
	}
	type cond struct {
		Key     string   `json:"key"`
		Polygon string   `json:"polygon"`
		Values  []string `json:"values"`
	}
	var conds []cond
	if raw != "" {
		if err := json.Unmarshal([]byte(raw), &conds); err != nil {
			g.fail("polygonJSON does not decode: %v", err)
		}
	}
	g.pf("def table : List Cond := [\n")
	for i, c := range conds {
		k, ok := condNames[c.Polygon]
		if !ok {
			k = "other"
		}
		sep := ","
		if i == len(conds)-1 {
			sep = ""
		}
		g.pf("  { key := %s, kind := .%s, values := %s }%s\n", leanStr(c.Key), k, leanStrList(c.Values), sep)
	}
	g.pf("]\n\n")

	// does init() sort every Values list?
	sorts := false
	if fd := p.funcDecl("", "init"); fd != nil {
		// there may be several init functions; look through all of them in polygon.go
	}
	for _, d := range f.Decls {
		fd, ok := d.(*ast.FuncDecl)
		if !ok || fd.Name.Name != "init" || fd.Recv != nil {
			continue
		}
		ast.Inspect(fd.Body, func(n ast.Node) bool {
			rs, ok := n.(*ast.RangeStmt)
			if !ok {
				return true
			}
			if id, ok := rs.X.(*ast.Ident); !ok || id.Name != "polyConditions" {
				return true
			}
			v := ""
			if id, ok := rs.Value.(*ast.Ident); ok {
				v = id.Name
			}
			ast.Inspect(rs.Body, func(m ast.Node) bool {
				c, ok := m.(*ast.CallExpr)
				if !ok {
					return true
				}
				txt := exprText(c)
				if txt == "sort.StringSlice("+v+".Values).Sort()" || txt == "sort.Strings("+v+".Values)" {
					sorts = true
				}
				return true
			})
			return true
		})
	}
	g.pf("/-- `init` sorts every rule's value list before first use (polygon.go) -/\n")
	g.pf("def initSortsValues : Bool := %v\n", sorts)
	facts["polygon.initSortsValues"] = sorts
	facts["polygon.rules"] = len(conds)
	return g
}

// exprText renders simple expressions (idents, selectors, calls) for matching.
func exprText(e ast.Expr) string {
	switch x := e.(type) {
	case *ast.Ident:
		return x.Name
	case *ast.SelectorExpr:
		return exprText(x.X) + "." + x.Sel.Name
	case *ast.CallExpr:
		var as []string
		for _, a := range x.Args {
			as = append(as, exprText(a))
		}
		return exprText(x.Fun) + "(" + strings.Join(as, ", ") + ")"
	case *ast.BasicLit:
		return x.Value
	case *ast.StarExpr:
		return "*" + exprText(x.X)
	case *ast.UnaryExpr:
		return x.Op.String() + exprText(x.X)
	case *ast.BinaryExpr:
		return exprText(x.X) + " " + x.Op.String() + " " + exprText(x.Y)
	case *ast.ParenExpr:
		return "(" + exprText(x.X) + ")"
	case *ast.IndexExpr:
		return exprText(x.X) + "[" + exprText(x.Index) + "]"
	}
	return "?"
}
